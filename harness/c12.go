package main

import (
	"encoding/json"
	"errors"
	"fmt"
	"math"
	"math/rand"
	"sort"
	"strings"

	"github.com/yaricom/goNEAT/v4/neat"
	"github.com/yaricom/goNEAT/v4/neat/genetics"
	neatmath "github.com/yaricom/goNEAT/v4/neat/math"
	"github.com/yaricom/goNEAT/v4/neat/network"
)

// C12: all solvers compute the feed-forward function.
// The harness builds networks through the public constructors, drives the REAL Network and the REAL fast solver
// (built by Network.FastNetworkSolver) through sequences of Solver operations, records result, outputs and full
// mutable state, and writes them as cases for the Coq model (cases/C12Cases.v). Independently of Coq it evaluates
// every feed-forward network once in topological order and compares with what the solvers returned.
// The helpers of this file are shared with c13.go.

func init() {
	runners["C12"] = runC12
	replayers["C12"] = replayC12
}

// ---- inputs (JSON-serialisable for replay) ----

type c12Link struct {
	Src int     `json:"src"` // position of the source node in allNodes
	W   float64 `json:"w"`
	TD  bool    `json:"td,omitempty"`
}
type c12Node struct {
	Role int       `json:"role"` // 0 hidden, 1 input, 2 output, 3 bias
	Act  int       `json:"act"`
	In   []c12Link `json:"in"`
}
type c12Net struct {
	Nodes   []c12Node `json:"nodes"`
	Inputs  []int     `json:"inputs"`
	Outputs []int     `json:"outputs"`
}

// op kinds
const (
	c12Load = iota
	c12Forward
	c12Recursive
	c12Relax
	c12Flush
)

type c12Op struct {
	Kind  int       `json:"kind"`
	X     []float64 `json:"x,omitempty"`
	K     int       `json:"k,omitempty"`
	Delta float64   `json:"delta,omitempty"`
}
type c12Run struct {
	Solver int     `json:"solver"` // 0 Network, 1 fast solver
	Ops    []c12Op `json:"ops"`
	State  int     `json:"state"` // 0: record no state, 1: after the last op, 2: after every op
	// C13 only: the operations from index Fresh on must behave as on a fresh instance (op Fresh-1 is a Flush)
	Fresh int `json:"fresh,omitempty"`
}
type c12Input struct {
	Net    c12Net   `json:"net"`
	Runs   []c12Run `json:"runs"`
	Family string   `json:"family"`
}

// ---- building the real objects ----

func c12Build(n c12Net) (*network.Network, []*network.NNode) {
	all := make([]*network.NNode, len(n.Nodes))
	for i, nd := range n.Nodes {
		all[i] = network.NewNNode(i+1, network.NodeNeuronType(nd.Role))
		all[i].ActivationType = neatmath.NodeActivationType(nd.Act)
	}
	for i, nd := range n.Nodes {
		for _, l := range nd.In {
			lk := network.NewLink(l.W, all[l.Src], all[i], false)
			lk.IsTimeDelayed = l.TD
			all[i].Incoming = append(all[i].Incoming, lk)
			all[l.Src].Outgoing = append(all[l.Src].Outgoing, lk)
		}
	}
	in := make([]*network.NNode, len(n.Inputs))
	for i, p := range n.Inputs {
		in[i] = all[p]
	}
	out := make([]*network.NNode, len(n.Outputs))
	for i, p := range n.Outputs {
		out[i] = all[p]
	}
	return network.NewNetwork(in, out, all, 1), all
}

// ---- recording the activation calls of the implementation ----

var c12Table map[[2]uint64]float64 // (code, input bits) -> output
var c12TableOrder [][3]uint64
var c12Orig = neatmath.NewNodeActivatorsFactory()
var c12Installed = false

// codes whose functions call libm; the Coq model looks these up instead of computing them
var c12LibmCodes = []int{1, 2, 3, 4, 8, 9, 10, 11, 12, 13, 19}

func c12InstallRecorder() {
	if c12Installed {
		return
	}
	c12Installed = true
	for _, code := range c12LibmCodes {
		t := neatmath.NodeActivationType(code)
		name, _ := c12Orig.ActivationNameFromType(t)
		neatmath.NodeActivators.Register(t, func(x float64, aux []float64) float64 {
			y, _ := c12Orig.ActivateByType(x, aux, t)
			if c12Table != nil {
				k := [2]uint64{uint64(t), math.Float64bits(x)}
				if _, ok := c12Table[k]; !ok {
					c12Table[k] = y
					c12TableOrder = append(c12TableOrder, [3]uint64{uint64(t), math.Float64bits(x), math.Float64bits(y)})
				}
			}
			return y
		}, name)
	}
}

func c12ResetTable() {
	c12Table = map[[2]uint64]float64{}
	c12TableOrder = nil
}

// ---- running operations ----

func c12ErrCode(err error) int {
	switch {
	case errors.Is(err, network.ErrNetExceededMaxActivationAttempts):
		return 101
	case errors.Is(err, network.ErrNetUnsupportedSensorsArraySize):
		return 102
	case errors.Is(err, network.ErrMaximalNetDepthExceeded):
		return 103
	case errors.Is(err, network.ErrZeroActivationStepsRequested):
		return 104
	}
	s := err.Error()
	switch {
	case strings.HasPrefix(s, "unknown neuron activation type"):
		return 105
	case strings.HasPrefix(s, "relax is not implemented"):
		return 106
	case strings.HasPrefix(s, "failed to recursively activate"):
		return 107
	case strings.HasPrefix(s, "failed to lookup for target"):
		return 108
	case strings.HasPrefix(s, "failed to lookup for source"):
		return 109
	case strings.HasPrefix(s, "NNODE:"):
		return 110
	}
	return 199
}

// c12Apply performs one operation on the real solver; panics are caught and reported as 2xx
func c12Apply(s network.Solver, o c12Op) (code int) {
	defer func() {
		if p := recover(); p != nil {
			code = 299
			if e, ok := p.(error); ok && strings.Contains(e.Error(), "index out of range") {
				code = 201
			}
		}
	}()
	var res bool
	var err error
	switch o.Kind {
	case c12Load:
		err = s.LoadSensors(o.X)
		res = true
	case c12Forward:
		res, err = s.ForwardSteps(o.K)
	case c12Recursive:
		res, err = s.RecursiveSteps()
	case c12Relax:
		res, err = s.Relax(o.K, o.Delta)
	case c12Flush:
		res, err = s.Flush()
	}
	if err != nil {
		return c12ErrCode(err)
	}
	if res {
		return 1
	}
	return 0
}

type c12Obs struct {
	Code  int
	Outs  []float64
	State string // Gallina term of the observed state, "" if not recorded
}

func c12BoolList(bs []bool) string {
	it := make([]string, len(bs))
	for i, b := range bs {
		it[i] = B(b)
	}
	return List(it)
}

func c12StdState(all []*network.NNode) string {
	n := len(all)
	act, sum, l1, l2 := make([]float64, n), make([]float64, n), make([]float64, n), make([]float64, n)
	cnt := make([]int64, n)
	on := make([]bool, n)
	for i, nd := range all {
		act[i], sum[i], cnt[i] = nd.Activation, nd.ActivationSum, int64(nd.ActivationsCount)
		on[i], l1[i], l2[i] = network.VerifNodePrivate(nd)
	}
	return "(" + List([]string{FList(act), FList(sum), FList(l1), FList(l2)}) + ", " + List([]string{ZList(cnt)}) + ", " + List([]string{c12BoolList(on)}) + ")"
}

func c12FastState(s network.Solver) string {
	st := network.VerifFastSolverState(s)
	return "(" + List([]string{FList(st.Signals), FList(st.BeingProcessed), FList(st.LastActivation)}) + ", [], " +
		List([]string{c12BoolList(st.Activated), c12BoolList(st.InActivation)}) + ")"
}

// c12Exec runs one run on a fresh instance
func c12Exec(n c12Net, run c12Run) (obs []c12Obs, buildErr int) {
	net, all := c12Build(n)
	var s network.Solver = net
	if run.Solver == 1 {
		fs, code := c12FastBuild(net)
		if fs == nil {
			return nil, code
		}
		s = fs
	}
	for i, o := range run.Ops {
		code := c12Apply(s, o)
		ob := c12Obs{Code: code, Outs: append([]float64{}, s.ReadOutputs()...)}
		if run.State == 2 || (run.State == 1 && i == len(run.Ops)-1) {
			if run.Solver == 0 {
				ob.State = c12StdState(all)
			} else {
				ob.State = c12FastState(s)
			}
		}
		obs = append(obs, ob)
	}
	return obs, 1
}

func c12FastBuild(net *network.Network) (s network.Solver, code int) {
	defer func() {
		if p := recover(); p != nil {
			s = nil
			code = 299
			if e, ok := p.(error); ok && strings.Contains(e.Error(), "index out of range") {
				code = 201
			}
		}
	}()
	fs, err := net.FastNetworkSolver()
	if err != nil {
		return nil, c12ErrCode(err)
	}
	return fs, 1
}

func c12Static(s network.Solver) *network.VerifFastStatic {
	if s == nil {
		return nil
	}
	return network.VerifFastSolverStatic(s)
}

// ---- Gallina terms ----

func c12NatList(xs []int) string { return IList(xs) + "%nat" }

func c12OpTerm(o c12Op) string {
	switch o.Kind {
	case c12Load:
		return "OLoad " + FList(o.X)
	case c12Forward:
		return "OForward " + ZI(o.K)
	case c12Recursive:
		return "ORecursive"
	case c12Relax:
		return "ORelax " + ZI(o.K) + " " + F(o.Delta)
	}
	return "OFlush"
}

func c12NetTerm(n c12Net) (nodes, ins, outs string) {
	nds := make([]string, len(n.Nodes))
	for i, nd := range n.Nodes {
		ls := make([]string, len(nd.In))
		for j, l := range nd.In {
			ls[j] = fmt.Sprintf("(%d%%nat, %s, %s)", l.Src, F(l.W), B(l.TD))
		}
		nds[i] = fmt.Sprintf("(%d, %d, %s)", nd.Role, nd.Act, List(ls))
	}
	return List(nds), c12NatList(n.Inputs), c12NatList(n.Outputs)
}

func c12CaseTerm(id int, in c12Input, fastCode int, static *network.VerifFastStatic, runs [][]c12Obs) string {
	nodes, ins, outs := c12NetTerm(in.Net)
	tb := make([]string, len(c12TableOrder))
	for i, e := range c12TableOrder {
		tb[i] = fmt.Sprintf("(%d, %s, %s)", e[0], F(math.Float64frombits(e[1])), F(math.Float64frombits(e[2])))
	}
	st := "None"
	if static != nil {
		conns := make([]string, len(static.Sources))
		for i := range static.Sources {
			conns[i] = fmt.Sprintf("(%d%%nat, %d%%nat, %s)", static.Sources[i], static.Targets[i], F(static.Weights[i]))
		}
		acts := make([]int, len(static.Activations))
		copy(acts, static.Activations)
		st = fmt.Sprintf("(Some (%s, %s, %s, %s))", c12NatList([]int{static.Bias, static.In, static.Out, static.Total}),
			IList(acts), List(conns), FList(static.Biases))
	}
	rs := make([]string, 0, len(runs))
	for i, obs := range runs {
		if obs == nil {
			// the fast solver could not be built: the model must fail to build it as well (sc_fast_code); no run
			continue
		}
		ops := make([]string, len(obs))
		for j, ob := range obs {
			stt := "None"
			if ob.State != "" {
				stt = "(Some " + ob.State + ")"
			}
			ops[j] = fmt.Sprintf("(%s, %d, %s, %s)", c12OpTerm(in.Runs[i].Ops[j]), ob.Code, FList(ob.Outs), stt)
		}
		rs = append(rs, fmt.Sprintf("(%d, %s)", in.Runs[i].Solver, List(ops)))
	}
	return fmt.Sprintf("{| sc_id := %d; sc_nodes := %s; sc_inputs := %s; sc_outputs := %s; sc_table := %s; sc_fast_code := %d; sc_fast_static := %s; sc_runs := %s |}",
		id, nodes, ins, outs, List(tb), fastCode, st, List(rs))
}

// ---- Go-side oracle: one-pass evaluation in topological order ----

type c12FF struct {
	ok    bool   // the network is inside the quantifier of C12
	why   string // if not: why
	order []int  // neurons in topological order
	depth []int  // longest path from a sensor, per node
	d     int    // max depth over outputs
}

// c12Analyse decides whether n is a feed-forward network in the sense of the property (acyclic over the links
// into neurons, every neuron reachable from a sensor, plain links, registered activations, inputs/outputs lists
// consistent with the node roles) and computes a topological order and the depths
func c12Analyse(n c12Net) c12FF {
	N := len(n.Nodes)
	ff := c12FF{depth: make([]int, N)}
	isSensor := func(i int) bool { return n.Nodes[i].Role == 1 || n.Nodes[i].Role == 3 }
	indeg := make([]int, N)
	succ := make([][]int, N)
	for i, nd := range n.Nodes {
		if isSensor(i) {
			continue // links into sensors are ignored by every solver
		}
		if nd.Act < 1 || nd.Act > 20 {
			ff.why = "unregistered activation"
			return ff
		}
		if len(nd.In) == 0 {
			ff.why = "neuron without incoming link"
			return ff
		}
		for _, l := range nd.In {
			if l.TD {
				ff.why = "time-delayed link"
				return ff
			}
			// several links on one ordered pair of nodes are inside the quantifier: their contributions add up
			indeg[i]++
			succ[l.Src] = append(succ[l.Src], i)
		}
	}
	// inputs = the sensors in node order, outputs = exactly the output neurons
	var sens []int
	outSet := map[int]bool{}
	for i := range n.Nodes {
		if isSensor(i) {
			sens = append(sens, i)
		}
	}
	if fmt.Sprint(sens) != fmt.Sprint(n.Inputs) {
		ff.why = "inputs list is not the sensors in node order"
		return ff
	}
	for _, o := range n.Outputs {
		if n.Nodes[o].Role != 2 || outSet[o] {
			ff.why = "outputs list inconsistent"
			return ff
		}
		outSet[o] = true
	}
	for i, nd := range n.Nodes {
		if nd.Role == 2 && !outSet[i] {
			ff.why = "output neuron missing from outputs"
			return ff
		}
	}
	// Kahn
	queue := append([]int{}, sens...)
	done := 0
	for len(queue) > 0 {
		u := queue[0]
		queue = queue[1:]
		done++
		if !isSensor(u) {
			ff.order = append(ff.order, u)
		}
		for _, v := range succ[u] {
			if ff.depth[u]+1 > ff.depth[v] {
				ff.depth[v] = ff.depth[u] + 1
			}
			indeg[v]--
			if indeg[v] == 0 {
				queue = append(queue, v)
			}
		}
	}
	if done != N {
		ff.why = "cyclic or unreachable"
		return ff
	}
	for _, o := range n.Outputs {
		if ff.depth[o] > ff.d {
			ff.d = ff.depth[o]
		}
	}
	ff.ok = true
	return ff
}

// c12Topo evaluates every neuron once: activation(sum of weight*source), bias inputs being one
func c12Topo(n c12Net, ff c12FF, x []float64) []float64 {
	v := make([]float64, len(n.Nodes))
	c := 0
	for i, nd := range n.Nodes {
		switch nd.Role {
		case 1:
			v[i] = x[c]
			c++
		case 3:
			v[i] = 1.0
		}
	}
	for _, i := range ff.order {
		s := 0.0
		for _, l := range n.Nodes[i].In {
			s += l.W * v[l.Src]
		}
		v[i], _ = c12Orig.ActivateByType(s, nil, neatmath.NodeActivationType(n.Nodes[i].Act))
	}
	out := make([]float64, len(n.Outputs))
	for i, o := range n.Outputs {
		out[i] = v[o]
	}
	return out
}

func c12Close(a, b []float64) bool {
	if len(a) != len(b) {
		return false
	}
	for i := range a {
		if math.IsNaN(a[i]) || math.IsNaN(b[i]) {
			if !(math.IsNaN(a[i]) && math.IsNaN(b[i])) {
				return false
			}
			continue
		}
		if math.Abs(a[i]-b[i]) > 1e-9*(1+math.Abs(a[i])) {
			return false
		}
	}
	return true
}

// c12Sweeps tells whether the run has the shape [Load x; activation...] and guarantees at least d sweeps
func c12RunGuaranteesDepth(run c12Run, nIn int, d int, hasHidden bool) (x []float64, ok bool) {
	// what comes before the LAST load is history: on a feed-forward network enough propagation after a load
	// overwrites all of it, so the same answer is due as on a fresh solver
	last := -1
	for i, o := range run.Ops {
		if o.Kind == c12Load {
			last = i
		}
	}
	if last < 0 || last+1 >= len(run.Ops) || len(run.Ops[last].X) != nIn {
		return nil, false
	}
	for _, o := range run.Ops[:last] {
		if o.Kind == c12Load && len(o.X) != nIn {
			return nil, false
		}
	}
	run = c12Run{Solver: run.Solver, Ops: run.Ops[last:], State: run.State}
	sweeps := 0
	for _, o := range run.Ops[1:] {
		switch o.Kind {
		case c12Forward:
			if o.K < d || o.K < 1 || len(run.Ops) != 2 {
				return nil, false
			}
			sweeps += o.K
		case c12Recursive:
			if len(run.Ops) != 2 {
				return nil, false
			}
			if run.Solver == 0 && !hasHidden && d > 1 {
				// Network.RecursiveSteps propagates MaxActivationDepthWithCap(0) steps, and without hidden nodes that
				// is 1 by the quick path even when an output feeds another output: fewer steps than the longest
				// path, so the premise of the property does not hold for this call (recorded as an observation)
				return nil, false
			}
			sweeps += d
		case c12Relax:
			if run.Solver != 1 {
				return nil, false
			}
			if o.Delta <= 0 {
				if o.K >= 1 {
					sweeps++ // exactly one sweep
				}
			} else if o.Delta <= 5e-324 && o.K >= d && len(run.Ops) == 2 {
				// stops early only at an exact fixed point, which for a feed-forward net is the final value
				sweeps += o.K
			} else {
				return nil, false
			}
		default:
			return nil, false
		}
	}
	return run.Ops[0].X, sweeps >= d && sweeps >= 1
}

func c12SolverName(run c12Run) string {
	name := "std"
	if run.Solver == 1 {
		name = "fast"
	}
	switch run.Ops[len(run.Ops)-1].Kind {
	case c12Forward:
		return name + "-forward"
	case c12Recursive:
		return name + "-recursive"
	case c12Relax:
		return name + "-relax"
	}
	return name
}

// ---- one case ----

func c12One(r *Run, cf *CaseFile, id int, in c12Input) {
	quiet()
	c12InstallRecorder()
	c12ResetTable()
	ff := c12Analyse(in.Net)
	nIn := 0
	for _, nd := range in.Net.Nodes {
		if nd.Role == 1 {
			nIn++
		}
	}
	// static description of the fast solver
	net0, _ := c12Build(in.Net)
	fs0, fastCode := c12FastBuild(net0)
	static := c12Static(fs0)
	runs := make([][]c12Obs, len(in.Runs))
	checked := 0
	for i, run := range in.Runs {
		obs, _ := c12Exec(in.Net, run)
		runs[i] = obs
		if obs == nil || !ff.ok {
			continue
		}
		hasHidden := c12CountRole(in.Net, 0) > 0
		if run.Solver == 0 && !hasHidden && ff.d > 1 && run.Ops[len(run.Ops)-1].Kind == c12Recursive {
			r.Hist("observation", "std RecursiveSteps under-propagates: depth quick path returns 1 for an output->output chain without hidden nodes")
		}
		if x, ok := c12RunGuaranteesDepth(run, nIn, ff.d, hasHidden); ok {
			checked++
			want := c12Topo(in.Net, ff, x)
			last := obs[len(obs)-1]
			bad := ""
			for _, ob := range obs {
				if ob.Code >= 100 {
					bad = fmt.Sprintf("operation failed with code %d", ob.Code)
				}
			}
			if bad == "" && !c12Close(want, last.Outs) {
				bad = "outputs differ from the one-pass topological evaluation"
			}
			if bad != "" {
				r.Fail(Failure{Key: fmt.Sprintf("%s family=%s nodes=%d d=%d", c12SolverName(run), in.Family, len(in.Net.Nodes), ff.d),
					What:     c12SolverName(run) + ": " + bad,
					Input:    c12Input{Net: in.Net, Runs: []c12Run{run}, Family: in.Family},
					Observed: map[string]interface{}{"outputs": fmt.Sprint(last.Outs), "codes": c12Codes(obs)},
					Required: map[string]interface{}{"outputs": fmt.Sprint(want), "depth": ff.d}})
			}
		}
	}
	if cf != nil {
		cf.Add(c12CaseTerm(id, in, fastCode, static, runs))
		r.SaveInput(id, in)
	}
	r.Count(c12Digest(in), ff.ok && ff.d >= 2)
	r.Hist("family", in.Family)
	if ff.ok {
		r.Hist("depth", fmt.Sprint(ff.d))
		r.Hist("oracle-checked-runs", fmt.Sprint(checked))
	} else {
		r.Hist("outside-quantifier", ff.why)
	}
	r.Hist("nodes", fmt.Sprint(len(in.Net.Nodes)))
	r.Sample(map[string]interface{}{"family": in.Family, "net": in.Net, "depth": ff.d, "feedforward": ff.ok})
}

func c12Codes(obs []c12Obs) []int {
	cs := make([]int, len(obs))
	for i, o := range obs {
		cs[i] = o.Code
	}
	return cs
}

func c12Digest(in c12Input) string {
	b, _ := json.Marshal(in.Net)
	return string(b)
}

// ---- generators ----

type c12Gen struct {
	nIn, nBias, nOut int
	layers           []int // hidden nodes per layer
	pSkip            float64
	shuffle          bool
	shuffleOut       bool
	acts             []int // palette, one is drawn per neuron
	wScale           float64
	outToOut         bool
}

// c12GenDAG: layered DAG with skip connections; every neuron has at least one link from an earlier layer
func c12GenDAG(rng *rand.Rand, g c12Gen) c12Net {
	type lnode struct{ role, layer int }
	var ln []lnode
	for i := 0; i < g.nIn; i++ {
		ln = append(ln, lnode{1, 0})
	}
	for i := 0; i < g.nBias; i++ {
		ln = append(ln, lnode{3, 0})
	}
	for l, c := range g.layers {
		for i := 0; i < c; i++ {
			ln = append(ln, lnode{0, l + 1})
		}
	}
	for i := 0; i < g.nOut; i++ {
		ln = append(ln, lnode{2, len(g.layers) + 1})
	}
	N := len(ln)
	// logical incoming lists
	inc := make([][]c12Link, N)
	for b := 0; b < N; b++ {
		if ln[b].layer == 0 {
			continue
		}
		var cands []int
		for a := 0; a < N; a++ {
			if ln[a].layer < ln[b].layer && ln[a].role != 2 {
				cands = append(cands, a)
			}
			if g.outToOut && ln[a].role == 2 && ln[b].role == 2 && a < b {
				cands = append(cands, a)
			}
		}
		// prefer a source in the previous layer so that depth grows with the number of layers
		var prev []int
		for _, a := range cands {
			if ln[a].layer == ln[b].layer-1 && ln[a].role != 3 {
				prev = append(prev, a)
			}
		}
		must := cands[rng.Intn(len(cands))]
		if len(prev) > 0 && rng.Float64() < 0.8 {
			must = prev[rng.Intn(len(prev))]
		}
		for _, a := range cands {
			p := g.pSkip
			if ln[a].role == 3 {
				p = 0.5 // bias weights that matter
			}
			if a == must || rng.Float64() < p {
				inc[b] = append(inc[b], c12Link{Src: a, W: rng.NormFloat64() * g.wScale})
			}
		}
		rng.Shuffle(len(inc[b]), func(i, j int) { inc[b][i], inc[b][j] = inc[b][j], inc[b][i] })
	}
	// positions
	perm := make([]int, N) // logical -> position
	for i := range perm {
		perm[i] = i
	}
	if g.shuffle {
		rng.Shuffle(N, func(i, j int) { perm[i], perm[j] = perm[j], perm[i] })
	}
	net := c12Net{Nodes: make([]c12Node, N)}
	for a := 0; a < N; a++ {
		nd := c12Node{Role: ln[a].role, Act: 17, In: []c12Link{}}
		if ln[a].role == 0 || ln[a].role == 2 {
			nd.Act = g.acts[rng.Intn(len(g.acts))]
		}
		for _, l := range inc[a] {
			nd.In = append(nd.In, c12Link{Src: perm[l.Src], W: l.W})
		}
		net.Nodes[perm[a]] = nd
	}
	net.Inputs, net.Outputs = []int{}, []int{}
	for p, nd := range net.Nodes {
		if nd.Role == 1 || nd.Role == 3 {
			net.Inputs = append(net.Inputs, p)
		}
		if nd.Role == 2 {
			net.Outputs = append(net.Outputs, p)
		}
	}
	if g.shuffleOut {
		rng.Shuffle(len(net.Outputs), func(i, j int) { net.Outputs[i], net.Outputs[j] = net.Outputs[j], net.Outputs[i] })
	}
	return net
}

func c12RandVec(rng *rand.Rand, n int) []float64 {
	x := make([]float64, n)
	for i := range x {
		x[i] = rng.NormFloat64()
		if rng.Intn(12) == 0 {
			x[i] = 0
		}
	}
	return x
}

func c12CountRole(n c12Net, role int) int {
	c := 0
	for _, nd := range n.Nodes {
		if nd.Role == role {
			c++
		}
	}
	return c
}

// c12StandardRuns: for each input vector the four solvers of the property (and the Network's RecursiveSteps)
func c12StandardRuns(rng *rand.Rand, n c12Net, d int, vectors int) []c12Run {
	nIn := c12CountRole(n, 1)
	var runs []c12Run
	for v := 0; v < vectors; v++ {
		x := c12RandVec(rng, nIn)
		k := d + []int{0, 0, 1, 3}[rng.Intn(4)]
		if k < 1 {
			k = 1
		}
		st := 0
		if v == 0 {
			st = 1
		}
		load := c12Op{Kind: c12Load, X: x}
		runs = append(runs,
			c12Run{Solver: 0, Ops: []c12Op{load, {Kind: c12Forward, K: k}}, State: st},
			c12Run{Solver: 1, Ops: []c12Op{load, {Kind: c12Forward, K: k}}, State: st},
			c12Run{Solver: 1, Ops: []c12Op{load, {Kind: c12Recursive}}, State: st},
			c12Run{Solver: 1, Ops: []c12Op{load, {Kind: c12Relax, K: k + 1, Delta: 5e-324}}, State: st},
			c12Run{Solver: 0, Ops: []c12Op{load, {Kind: c12Recursive}}, State: 0})
		if v == 1 {
			// consecutive inputs on ONE solver, no flush in between: the second answer is the function of the
			// second input
			x0 := c12RandVec(rng, nIn)
			load0 := c12Op{Kind: c12Load, X: x0}
			runs = append(runs,
				c12Run{Solver: 0, Ops: []c12Op{load0, {Kind: c12Forward, K: k}, load, {Kind: c12Forward, K: k}}, State: 0},
				c12Run{Solver: 1, Ops: []c12Op{load0, {Kind: c12Forward, K: k}, load, {Kind: c12Forward, K: k}}, State: 0},
				c12Run{Solver: 1, Ops: []c12Op{load0, {Kind: c12Recursive}, load, {Kind: c12Recursive}}, State: 0},
				c12Run{Solver: 1, Ops: []c12Op{load0, {Kind: c12Recursive}, load, {Kind: c12Forward, K: k}}, State: 0},
				c12Run{Solver: 1, Ops: []c12Op{load0, {Kind: c12Forward, K: k}, load, {Kind: c12Recursive}}, State: 0},
				c12Run{Solver: 1, Ops: []c12Op{load0, {Kind: c12Relax, K: k + 1, Delta: 5e-324}, load, {Kind: c12Relax, K: k + 1, Delta: 5e-324}}, State: 0},
				c12Run{Solver: 0, Ops: []c12Op{load0, {Kind: c12Recursive}, load, {Kind: c12Recursive}}, State: 0})
		}
		if v == 0 {
			// Relax with a non-positive tolerance performs one sweep per call
			ops := []c12Op{load}
			for i := 0; i < k; i++ {
				ops = append(ops, c12Op{Kind: c12Relax, K: 1 + rng.Intn(3), Delta: -float64(rng.Intn(2))})
			}
			runs = append(runs, c12Run{Solver: 1, Ops: ops, State: 0})
		}
	}
	return runs
}

var c12AllActs = []int{1, 2, 3, 4, 5, 6, 7, 8, 9, 10, 11, 12, 13, 14, 15, 16, 17, 18, 19, 20}
var c12CoqActs = []int{5, 6, 7, 14, 15, 16, 18, 20}

func c12RandomGen(rng *rand.Rand, i int) (c12Gen, string) {
	g := c12Gen{nIn: 1 + rng.Intn(3), nBias: rng.Intn(4), nOut: 1 + rng.Intn(3), pSkip: 0.15 + 0.3*rng.Float64(),
		shuffle: rng.Intn(2) == 0, shuffleOut: rng.Intn(3) == 0, wScale: 0.4 + 0.6*rng.Float64(), outToOut: rng.Intn(5) == 0}
	nl := rng.Intn(5)
	for l := 0; l < nl; l++ {
		g.layers = append(g.layers, 1+rng.Intn(3))
	}
	fam := "mixed-activations"
	switch i % 3 {
	case 0:
		g.acts = []int{c12AllActs[(i/3)%len(c12AllActs)]}
		fam = "single-activation"
	case 1:
		g.acts = c12AllActs
	default:
		g.acts = c12CoqActs
		fam = "coq-evaluated-activations"
	}
	return g, fam
}

// boundary families
func c12Boundary(rng *rand.Rand) []c12Input {
	var out []c12Input
	add := func(fam string, n c12Net, runs []c12Run) {
		out = append(out, c12Input{Net: n, Runs: runs, Family: fam})
	}
	std := func(n c12Net, vectors int) []c12Run { return c12StandardRuns(rng, n, c12Analyse(n).d, vectors) }
	for rep := 0; rep < 3; rep++ {
		// no hidden neuron: depth 1, the quick path of MaxActivationDepth
		n := c12GenDAG(rng, c12Gen{nIn: 2, nBias: 1, nOut: 2, pSkip: 0.6, acts: []int{4}, wScale: 1})
		add("no-hidden", n, std(n, 2))
		// deep chain
		n = c12GenDAG(rng, c12Gen{nIn: 1, nBias: 1, nOut: 1, layers: []int{1, 1, 1, 1, 1, 1, 1, 1}, pSkip: 0.05, acts: []int{11, 14}, wScale: 0.9})
		add("deep-chain", n, std(n, 2))
		// no bias node at all (biasNeuronCount == 0 branches)
		n = c12GenDAG(rng, c12Gen{nIn: 3, nBias: 0, nOut: 2, layers: []int{2, 2}, pSkip: 0.4, acts: c12AllActs, wScale: 0.8, shuffle: rep == 1})
		add("no-bias", n, std(n, 2))
		// several bias nodes feeding everything
		n = c12GenDAG(rng, c12Gen{nIn: 1, nBias: 3, nOut: 2, layers: []int{2, 1}, pSkip: 0.5, acts: []int{14, 1, 7}, wScale: 0.8, shuffle: rep == 2})
		add("many-bias", n, std(n, 2))
		// outputs at different depths, outputs feeding outputs
		n = c12GenDAG(rng, c12Gen{nIn: 2, nBias: 1, nOut: 3, layers: []int{1, 2, 1}, pSkip: 0.3, acts: []int{4, 16}, wScale: 0.8, outToOut: true, shuffle: true, shuffleOut: true})
		add("outputs-uneven", n, std(n, 2))
	}
	// --- outside the quantifier of the property: correspondence only ---
	base := func() c12Net {
		return c12GenDAG(rng, c12Gen{nIn: 2, nBias: 1, nOut: 2, layers: []int{2, 2}, pSkip: 0.4, acts: []int{4, 14, 6}, wScale: 0.8})
	}
	for rep := 0; rep < 2; rep++ {
		// too few steps: the Network reports that the outputs stay off, the fast solver returns intermediate values
		n := base()
		x := c12RandVec(rng, 2)
		var runs []c12Run
		for _, k := range []int{0, -1, 1, 2} {
			runs = append(runs, c12Run{Solver: 0, Ops: []c12Op{{Kind: c12Load, X: x}, {Kind: c12Forward, K: k}}, State: 1},
				c12Run{Solver: 1, Ops: []c12Op{{Kind: c12Load, X: x}, {Kind: c12Forward, K: k}}, State: 1},
				c12Run{Solver: 1, Ops: []c12Op{{Kind: c12Load, X: x}, {Kind: c12Relax, K: k, Delta: 0.05}}, State: 1})
		}
		add("few-steps", n, runs)
		// sensor vector arities: with bias values, too short (panics), too long
		n = base()
		runs = nil
		for _, x := range [][]float64{c12RandVec(rng, 3), c12RandVec(rng, 1), c12RandVec(rng, 5), {}} {
			runs = append(runs, c12Run{Solver: 0, Ops: []c12Op{{Kind: c12Load, X: x}, {Kind: c12Forward, K: 4}}, State: 1},
				c12Run{Solver: 1, Ops: []c12Op{{Kind: c12Load, X: x}, {Kind: c12Forward, K: 4}}, State: 1})
		}
		add("arity", n, runs)
		// an unregistered activation type (a module activation, or zero)
		n = base()
		for i := range n.Nodes {
			if n.Nodes[i].Role == 0 {
				n.Nodes[i].Act = []int{21, 0}[rep]
				break
			}
		}
		add("unregistered-activation", n, std(n, 1))
		// a hidden neuron nothing feeds, and one fed only by it
		n = base()
		p := len(n.Nodes)
		n.Nodes = append(n.Nodes, c12Node{Role: 0, Act: 4, In: []c12Link{}}, c12Node{Role: 0, Act: 4, In: []c12Link{{Src: p, W: 0.7}}})
		n.Nodes[n.Outputs[0]].In = append(n.Nodes[n.Outputs[0]].In, c12Link{Src: p + 1, W: -0.6})
		add("unreachable-neuron", n, c12StandardRuns(rng, n, 4, 1))
		// a link into a sensor, a time-delayed link (outside the quantifier); parallel links (inside: judged by the oracle)
		n = base()
		n.Nodes[n.Inputs[0]].In = append(n.Nodes[n.Inputs[0]].In, c12Link{Src: n.Outputs[0], W: 0.5}, c12Link{Src: n.Inputs[1], W: 0.25})
		add("link-into-sensor", n, c12StandardRuns(rng, n, 4, 1))
		n = base()
		o := n.Outputs[0]
		n.Nodes[o].In = append(n.Nodes[o].In, c12Link{Src: n.Nodes[o].In[0].Src, W: 0.3})
		add("parallel-links", n, c12StandardRuns(rng, n, 4, 1))
		n = base()
		n.Nodes[o].In[0].TD = true
		add("time-delayed-link", n, c12StandardRuns(rng, n, 4, 1))
		// an output neuron that is not listed in Outputs / a hidden neuron that is
		n = base()
		if len(n.Outputs) > 1 {
			n.Outputs = n.Outputs[:1]
		}
		add("output-not-listed", n, c12StandardRuns(rng, n, 4, 1))
		n = base()
		for i := range n.Nodes {
			if n.Nodes[i].Role == 0 {
				n.Outputs = append(n.Outputs, i)
				break
			}
		}
		add("hidden-listed-as-output", n, c12StandardRuns(rng, n, 4, 1))
	}
	return out
}

// c12ParallelLinks: two links on one ordered pair of nodes. Input(1) -> Output(2, linear) by links of weights 2 and 3,
// x = [1]: the one-pass topological value is 2*1 + 3*1 = 5 (exact in binary64 whatever the order of the operations).
// The network is built directly and through Genesis of a genome with two genes on the pair that differ in their
// recurrence flag (the only way the mutators admit a second gene on a pair); the same through a hidden neuron, where
// the pair is hidden -> output. All four evaluation routes must return 5.
// c12ParallelInput is the parallel-links network as a replayable input (the genome-built networks are the same
// networks; replay judges the four routes through c12One)
func c12ParallelInput(hidden bool, family string) c12Input {
	n := c12Net{Nodes: []c12Node{{Role: 1, Act: 17, In: []c12Link{}},
		{Role: 2, Act: 14, In: []c12Link{{Src: 0, W: 2}, {Src: 0, W: 3}}}}, Inputs: []int{0}, Outputs: []int{1}}
	if hidden {
		n = c12Net{Nodes: []c12Node{{Role: 1, Act: 17, In: []c12Link{}},
			{Role: 0, Act: 14, In: []c12Link{{Src: 0, W: 1}}},
			{Role: 2, Act: 14, In: []c12Link{{Src: 1, W: 2}, {Src: 1, W: 3}}}}, Inputs: []int{0}, Outputs: []int{2}}
	}
	load := c12Op{Kind: c12Load, X: []float64{1}}
	return c12Input{Net: n, Family: family, Runs: []c12Run{
		{Solver: 0, Ops: []c12Op{load, {Kind: c12Forward, K: 2}}},
		{Solver: 1, Ops: []c12Op{load, {Kind: c12Forward, K: 2}}},
		{Solver: 1, Ops: []c12Op{load, {Kind: c12Relax, K: 1}, {Kind: c12Relax, K: 1}}},
		{Solver: 1, Ops: []c12Op{load, {Kind: c12Recursive}}}}}
}

func c12ParallelLinks(r *Run) {
	quiet()
	direct := func(hidden bool) func() (*network.Network, error) {
		return func() (*network.Network, error) {
			net, _ := c12Build(c12ParallelInput(hidden, "").Net)
			return net, nil
		}
	}
	genome := func(hidden bool) func() (*network.Network, error) {
		return func() (*network.Network, error) {
			in := network.NewNNode(1, network.InputNeuron)
			out := network.NewNNode(2, network.OutputNeuron)
			out.ActivationType = neatmath.LinearActivation
			tr := neat.NewTrait()
			tr.Id = 1
			nodes := []*network.NNode{in, out}
			genes := []*genetics.Gene{genetics.NewGene(2, in, out, false, 1, 0), genetics.NewGene(3, in, out, true, 2, 0)}
			if hidden {
				hid := network.NewNNode(3, network.HiddenNeuron)
				hid.ActivationType = neatmath.LinearActivation
				nodes = []*network.NNode{in, out, hid}
				genes = []*genetics.Gene{genetics.NewGene(1, in, hid, false, 1, 0),
					genetics.NewGene(2, hid, out, false, 2, 0), genetics.NewGene(3, hid, out, true, 3, 0)}
			}
			return genetics.NewGenome(1, []*neat.Trait{tr}, nodes, genes).Genesis(1)
		}
	}
	type route struct {
		name string
		fast bool
		run  func(s network.Solver) error
	}
	routes := []route{
		{"Network.ForwardSteps", false, func(s network.Solver) error { _, e := s.ForwardSteps(2); return e }},
		{"fast ForwardSteps", true, func(s network.Solver) error { _, e := s.ForwardSteps(2); return e }},
		{"fast Relax", true, func(s network.Solver) error {
			for i := 0; i < 2; i++ {
				if _, e := s.Relax(1, 0); e != nil {
					return e
				}
			}
			return nil
		}},
		{"fast RecursiveSteps", true, func(s network.Solver) error { _, e := s.RecursiveSteps(); return e }},
	}
	builds := []struct {
		name  string
		build func() (*network.Network, error)
	}{
		{"direct", direct(false)}, {"direct-through-hidden", direct(true)},
		{"genome", genome(false)}, {"genome-through-hidden", genome(true)},
	}
	const want = 5.0
	for _, b := range builds {
		got := map[string]string{}
		bad := false
		for _, rt := range routes {
			net, err := b.build()
			if err != nil || net == nil {
				got[rt.name] = fmt.Sprint("build failed: ", err)
				bad = true
				continue
			}
			var s network.Solver = net
			if rt.fast {
				if s, err = net.FastNetworkSolver(); err != nil {
					got[rt.name] = fmt.Sprint("FastNetworkSolver failed: ", err)
					bad = true
					continue
				}
			}
			if err = s.LoadSensors([]float64{1}); err == nil {
				err = rt.run(s)
			}
			outs := s.ReadOutputs()
			if err != nil || len(outs) != 1 {
				got[rt.name] = fmt.Sprint("failed: ", err, " outputs ", outs)
				bad = true
				continue
			}
			got[rt.name] = fmt.Sprint(outs[0])
			if outs[0] != want {
				bad = true
			}
		}
		r.Hist("parallel-links-oracle", b.name)
		if bad {
			r.Fail(Failure{Key: "fast-recursive-parallel-links",
				What:     "two links on one ordered pair of nodes (" + b.name + "): an evaluation route does not return the topological value",
				Input:    c12ParallelInput(strings.HasSuffix(b.name, "hidden"), "parallel-links-oracle-"+b.name),
				Observed: got,
				Required: map[string]interface{}{"every route": want}})
		}
	}
}

func runC12(r *Run) error {
	r.Res.Rule = "random layered DAGs (1-3 inputs, 0-3 bias nodes, 0-4 hidden layers of 1-3, 1-3 outputs, skip links, shuffled node order in half of them), " +
		"every activation type; per net up to 3 input vectors through Network.ForwardSteps/RecursiveSteps and the fast solver's ForwardSteps/RecursiveSteps/Relax with k >= depth; " +
		"boundary families (no hidden, deep chain, no bias, many bias, uneven outputs) and nets outside the quantifier (correspondence only); " +
		"non-trivial = feed-forward with depth >= 2; distinct by network"
	depthQueryHistories(r, "C12")
	twoSolversOneNetwork(r, "C12")
	c12ParallelLinks(r)
	r.Note("harness built with the default GOAMD64 (v1): the Go compiler emits no fused multiply-add on amd64")
	var inputs []c12Input
	inputs = append(inputs, c12Boundary(r.Rng)...)
	nRandom := r.N(600, 6000)
	for i := 0; i < nRandom; i++ {
		g, fam := c12RandomGen(r.Rng, i)
		n := c12GenDAG(r.Rng, g)
		ff := c12Analyse(n)
		inputs = append(inputs, c12Input{Net: n, Runs: c12StandardRuns(r.Rng, n, ff.d, 3), Family: fam})
	}
	perShard := (len(inputs) + 15) / 16
	if perShard > 400 {
		perShard = 400
	}
	shard, inShard := 0, 0
	cf := r.NewCaseFile(shard, "Res Net Fast C12Cases", "c12_case")
	for id, in := range inputs {
		if inShard >= perShard {
			cf.Close("c12_mismatches")
			shard++
			inShard = 0
			cf = r.NewCaseFile(shard, "Res Net Fast C12Cases", "c12_case")
		}
		c12One(r, cf, id, in)
		inShard++
	}
	cf.Close("c12_mismatches")
	// sorted histogram keys are produced by encoding/json already; nothing else to do
	_ = sort.Ints
	return nil
}

func replayC12(r *Run, input []byte) error {
	var in c12Input
	if err := json.Unmarshal(input, &in); err != nil {
		return err
	}
	c12One(r, nil, 0, in)
	return nil
}
