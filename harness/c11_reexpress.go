package main

import (
	"fmt"

	"github.com/yaricom/goNEAT/v4/neat/genetics"
)

// Re-expression after a change (C11): a genome that was expressed before and then changed through its
// exported fields (a gene disabled / re-enabled, a weight changed) must express its CURRENT enabled part,
// also under the same network id, and so must Organism.UpdatePhenotype. (The verif hook VMutate drops the
// cached phenotype before each mutator, so this path is exercised here directly.)
func c11Reexpress(r *Run, g0 *genetics.Genome) {
	g, err := genetics.VDuplicate(g0, g0.Id)
	if err != nil || len(g.Genes) == 0 {
		return
	}
	in := map[string]interface{}{"kind": "reexpress", "genome": genomeText(g0)}
	countLinks := func(gg *genetics.Genome) (int, error) {
		net, err := gg.Genesis(7)
		if err != nil {
			return 0, err
		}
		return net.LinkCount(), nil
	}
	if _, err := countLinks(g); err != nil {
		return
	}
	k := r.Rng.Intn(len(g.Genes))
	g.Genes[k].IsEnabled = !g.Genes[k].IsEnabled
	enabled := 0
	for _, x := range g.Genes {
		if x.IsEnabled {
			enabled++
		}
	}
	ctl := 0
	for _, m := range g.ControlGenes {
		if m.IsEnabled {
			ctl += len(m.ControlNode.Incoming) + len(m.ControlNode.Outgoing)
		}
	}
	n2, err := countLinks(g)
	if err == nil && n2 != enabled+ctl {
		r.Fail(Failure{Key: "reexpress-stale-network", What: fmt.Sprintf("Genesis under the same id after toggling a gene returned %d links, the genome has %d enabled genes (+%d module links)", n2, enabled, ctl), Input: in})
	}
	// the organism path
	org, err := genetics.NewOrganism(1.0, g, 1)
	if err != nil {
		return
	}
	if _, err := org.Phenotype(); err != nil {
		return
	}
	g.Genes[k].IsEnabled = !g.Genes[k].IsEnabled
	enabled = 0
	for _, x := range g.Genes {
		if x.IsEnabled {
			enabled++
		}
	}
	if err := org.UpdatePhenotype(); err == nil {
		if net, _ := org.Phenotype(); net != nil && net.LinkCount() != enabled+ctl {
			r.Fail(Failure{Key: "update-phenotype-stale", What: fmt.Sprintf("Organism.UpdatePhenotype left a network with %d links, the genome has %d enabled genes (+%d module links)", net.LinkCount(), enabled, ctl), Input: in})
		}
	}
	r.Hist("reexpress", "done")
}
