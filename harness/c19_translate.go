package main

// Aggregate-accessor translator for C19 (`neatverif translate experaggr -out <dir>` writes <dir>/ExperAggr.v).
//
// Parses experiment/trial.go and experiment/experiment.go, finds the methods listed in c19tTargets and translates the
// BODY of each, construct by construct, into a Gallina definition `gen_<Recv>_<Method>` over the record types of the
// hand-written model coq/model/Exper.v (an Experiment is the list of its Trials, a Trial the record t_gens /
// t_winner / t_duration, a Generation the record g_solved ... g_duration), polymorphic in the number structure
// `num F` of model/Stats.v exactly like the model.  proofs/ExperAggrAgree.v (checked in) proves each hand-written
// model function equal to the generated one for all inputs, so an edit of one of these bodies either leaves that proof
// valid or breaks a proof obligation on the next run.
//
// Subset (everything else: error naming the function and the source position, non-zero exit, nothing written):
//   - locals of type int, float64, bool, time.Duration, Floats: `var x T [= e]`, `x := e`, `a, b := e1, e2`, `=`,
//     `+= -= *= /=`, `++`/`--` (int), no shadowing; `var x Floats = make([]float64, len(s))` / `x := make(Floats, len(s))`
//     is the list of len(s) zeros, `x[i] = e` the list update (an index out of range is not translated: the only
//     accepted index is the key variable of the enclosing range loop over s, and x must have been made with len(s));
//   - expressions: integer / float constants (a float64 constant must be 0 or 1: the model's number structure has no
//     other literals), + - * / (int and time.Duration division is Z.quot: truncation toward zero; float64 operations
//     are n_add/n_sub/n_mul/n_div of the number structure), comparisons, && || !, len(slice), float64(int),
//     int(int), time.Duration(int), the constant EmptyDuration (its declaration is checked to be time.Duration(-1)),
//     math.MaxInt, field reads listed in c19tFields (e.Champion is an option, e.Champion.Species the option o_age; a
//     field read through such a pointer is accepted only inside the branch of an `if p != nil [&& q != nil ...]` that
//     establishes that it is not nil -- the test becomes a match binding the pointee -- and is an error elsewhere:
//     nil dereferences are never translated), calls without arguments of
//     methods translated earlier in the same run (the callee is the GENERATED definition), Generation.ChampionComplexity
//     (the model's g_champion_complexity: generation.go is outside this translator) and Floats.Mean (the model's
//     F_mean with the alignment bit the model uses);
//   - statements: the above, blocks, if / else if / else (with a `x := e;` init), `return e`,
//     `for _, v := range <slice>` and `for i, v := range <slice>` over e.Trials / t.Generations (not nested, no
//     break/continue/goto): without a return in the body a fold_left over the tuple of enclosing variables the body
//     assigns, with a return the combinator go_range (defined in the generated file) that stops at the first return.
//
// NOT MODELLED (as in model/Exper.v): Go's int / time.Duration arithmetic wraps modulo 2^64, the generated Z
// arithmetic does not.

import (
	"bufio"
	"fmt"
	"go/ast"
	"go/constant"
	"go/parser"
	"go/token"
	"go/types"
	"os"
	"path/filepath"
	"regexp"
	"sort"
	"strconv"
	"strings"
)

func init() { translators["experaggr"] = c19tTranslate }

type c19tKind int

const (
	c19tInt c19tKind = iota
	c19tFloat
	c19tDur
	c19tBool
	c19tConst
	c19tTrial
	c19tGen
	c19tExp
	c19tTrials
	c19tGens
	c19tFloats
	c19tOrgPtr
	c19tOrg
	c19tSpeciesPtr
	c19tSpecies
	c19tNil
)

func (k c19tKind) String() string {
	return [...]string{"int", "float64", "time.Duration", "bool", "untyped constant", "Trial", "Generation", "*Experiment",
		"[]Trial", "[]Generation", "Floats", "*genetics.Organism", "genetics.Organism", "*genetics.Species", "genetics.Species", "nil"}[k]
}

func (k c19tKind) coqType() string {
	switch k {
	case c19tInt, c19tDur:
		return "Z"
	case c19tFloat:
		return "F"
	case c19tBool:
		return "bool"
	case c19tTrial:
		return "(@trial F)"
	case c19tGen:
		return "(@generation F)"
	case c19tExp, c19tTrials:
		return "(@experiment F)"
	case c19tGens:
		return "(list (@generation F))"
	case c19tFloats:
		return "(list F)"
	}
	return "?"
}

// the methods to translate, in dependency order (a call may only refer to a method translated earlier)
type c19tTarget struct {
	file, recv, name string
	result           c19tKind
	resultSrc        string // the result type as written in the source
}

var c19tTargets = []c19tTarget{
	{"trial.go", "Trial", "AvgEpochDuration", c19tDur, "time.Duration"},
	{"trial.go", "Trial", "Solved", c19tBool, "bool"},
	{"trial.go", "Trial", "Diversity", c19tFloats, "Floats"},
	{"trial.go", "Trial", "ChampionsFitness", c19tFloats, "Floats"},
	{"trial.go", "Trial", "ChampionSpeciesAges", c19tFloats, "Floats"},
	{"trial.go", "Trial", "ChampionsComplexities", c19tFloats, "Floats"},
	{"experiment.go", "Experiment", "AvgTrialDuration", c19tDur, "time.Duration"},
	{"experiment.go", "Experiment", "AvgEpochDuration", c19tDur, "time.Duration"},
	{"experiment.go", "Experiment", "AvgGenerationsPerTrial", c19tFloat, "float64"},
	{"experiment.go", "Experiment", "Solved", c19tBool, "bool"},
	{"experiment.go", "Experiment", "TrialsSolved", c19tInt, "int"},
	{"experiment.go", "Experiment", "SuccessRate", c19tFloat, "float64"},
	{"experiment.go", "Experiment", "EpochsPerTrial", c19tFloats, "Floats"},
	{"experiment.go", "Experiment", "AvgDiversity", c19tFloats, "Floats"},
}

// struct fields the translated bodies may read: Go struct, field -> source type (checked), model projection, kind
type c19tField struct {
	strct, field, srcType, proj string
	kind                        c19tKind
	pkg                         string // "" = experiment, else the directory below neat/
}

var c19tFields = []c19tField{
	{"Experiment", "Trials", "Trials", "", c19tTrials, ""}, // embedded; the model's experiment IS the list of trials
	{"Trial", "Generations", "Generations", "t_gens", c19tGens, ""},
	{"Trial", "Duration", "time.Duration", "t_duration", c19tDur, ""},
	{"Generation", "Solved", "bool", "g_solved", c19tBool, ""},
	{"Generation", "Duration", "time.Duration", "g_duration", c19tDur, ""},
	{"Generation", "Diversity", "int", "g_diversity", c19tInt, ""},
	{"Generation", "WinnerNodes", "int", "g_wnodes", c19tInt, ""},
	{"Generation", "WinnerGenes", "int", "g_wgenes", c19tInt, ""},
	{"Generation", "WinnerEvals", "int", "g_wevals", c19tInt, ""},
	{"Generation", "Champion", "*genetics.Organism", "g_champ", c19tOrgPtr, ""}, // option organism, None = nil
	// the model projects a champion to (Fitness, highestFitness, Species.Age or None for a nil Species, complexity)
	{"Organism", "Fitness", "float64", "o_fitness", c19tFloat, "genetics"},
	{"Organism", "Species", "*Species", "o_age", c19tSpeciesPtr, "genetics"}, // option Z: the species' Age, None = nil
	{"Species", "Age", "int", "", c19tInt, "genetics"},                       // the pointee of o_age IS the age
}

var c19tNamedTypes = map[string]string{"Trials": "[]Trial", "Generations": "[]Generation", "Floats": "[]float64"}

var c19tIdentRe = regexp.MustCompile(`^[A-Za-z_][A-Za-z0-9_]*$`)

var c19tReserved = map[string]bool{"math": true, "time": true, "len": true, "int": true, "float64": true, "true": true,
	"false": true, "nil": true, "iota": true, "make": true, "EmptyDuration": true, "Floats": true, "sort": true, "genetics": true}

type c19tVal struct {
	kind c19tKind
	code string
	cv   constant.Value
	// for a Floats local: the slice expression (source text) whose length it was made with
	madeLen string
}

type c19tVar struct {
	kind    c19tKind
	depth   int
	order   int
	madeLen string
}

type c19tEnv struct {
	vars  map[string]c19tVar
	depth int
	next  int
	// pointer expressions (source text) known to be non-nil here -> the pointee (kind, bound Coq variable).  Sound
	// because the subset has no assignment to a field and none to a Trial / Generation variable.
	nonnil map[string]c19tVal
}

func (e c19tEnv) withNonNil(key string, v c19tVal) c19tEnv {
	m := make(map[string]c19tVal, len(e.nonnil)+1)
	for k, x := range e.nonnil {
		m[k] = x
	}
	m[key] = v
	r := e
	r.nonnil = m
	return r
}

func (e c19tEnv) with(name string, v c19tVar) c19tEnv {
	m := make(map[string]c19tVar, len(e.vars)+1)
	for k, x := range e.vars {
		m[k] = x
	}
	if old, ok := m[name]; ok {
		v.order, v.depth = old.order, old.depth
	} else {
		v.order = e.next
	}
	m[name] = v
	r := e
	r.vars = m
	r.next = e.next + 1
	return r
}
func (e c19tEnv) push() c19tEnv { r := e; r.depth++; return r }
func (e c19tEnv) popTo(outer c19tEnv) c19tEnv {
	m := make(map[string]c19tVar, len(e.vars))
	for k, x := range e.vars {
		if x.depth <= outer.depth {
			m[k] = x
		}
	}
	r := outer
	r.vars = m
	r.next = e.next
	return r
}

type c19tError struct{ msg string }

// how a `return` is rendered and which loop (if any) encloses the statement
type c19tCtx struct {
	retKind  c19tKind
	wrapRet  func(string) string
	inLoop   bool
	loopKey  string // index variable of the enclosing range loop ("" if none)
	loopOver string // source text of the slice the enclosing loop ranges over
}

type c19tTr struct {
	fset  *token.FileSet
	src   []byte
	fn    string                // Recv.Method being translated (for messages)
	done  map[string]c19tTarget // "Recv.Method" translated so far
	usesN bool
	fresh int
}

func (t *c19tTr) fail(n ast.Node, format string, a ...interface{}) {
	pos := "?"
	if n != nil {
		pos = t.fset.Position(n.Pos()).String()
	}
	panic(c19tError{fmt.Sprintf("%s: in %s: %s", pos, t.fn, fmt.Sprintf(format, a...))})
}

func (t *c19tTr) text(n ast.Node) string {
	a, b := t.fset.Position(n.Pos()).Offset, t.fset.Position(n.End()).Offset
	if a < 0 || b > len(t.src) || a > b {
		return ""
	}
	return string(t.src[a:b])
}

func (t *c19tTr) coqVar(id *ast.Ident) string {
	if !c19tIdentRe.MatchString(id.Name) {
		t.fail(id, "identifier %q is not plain ASCII", id.Name)
	}
	return "v_" + id.Name
}

func c19tIndent(s string) string { return "  " + strings.ReplaceAll(s, "\n", "\n  ") }

func c19tZ(s string) string {
	if strings.HasPrefix(s, "-") {
		return "(" + s + ")"
	}
	return s
}

// coerce converts a value to the wanted kind where Go does so implicitly (untyped constants only)
func (t *c19tTr) coerce(n ast.Node, v c19tVal, want c19tKind) string {
	if v.kind == want {
		return v.code
	}
	if v.kind != c19tConst {
		t.fail(n, "a value of type %s is used where %s is needed", v.kind, want)
	}
	switch want {
	case c19tInt, c19tDur:
		i := constant.ToInt(v.cv)
		if i.Kind() != constant.Int {
			t.fail(n, "constant %s is not an integer", v.cv.ExactString())
		}
		if _, ok := constant.Int64Val(i); !ok {
			t.fail(n, "constant %s overflows int", v.cv.ExactString())
		}
		return c19tZ(i.ExactString())
	case c19tFloat:
		t.usesN = true
		if constant.Compare(v.cv, token.EQL, constant.MakeInt64(0)) {
			return "(n_zero N)"
		}
		if constant.Compare(v.cv, token.EQL, constant.MakeInt64(1)) {
			return "(n_one N)"
		}
		t.fail(n, "float64 constant %s: the model's number structure has the literals 0 and 1 only", v.cv.ExactString())
	}
	t.fail(n, "constant %s used where %s is needed", v.cv.ExactString(), want)
	return ""
}

func (t *c19tTr) lookupField(strct, field string) (c19tField, bool) {
	for _, f := range c19tFields {
		if f.strct == strct && f.field == field {
			return f, true
		}
	}
	return c19tField{}, false
}

func (t *c19tTr) expr(e ast.Expr, env c19tEnv) c19tVal {
	switch x := e.(type) {
	case *ast.ParenExpr:
		return t.expr(x.X, env)
	case *ast.BasicLit:
		if x.Kind != token.INT && x.Kind != token.FLOAT {
			t.fail(x, "literal %s", x.Value)
		}
		cv := constant.MakeFromLiteral(x.Value, x.Kind, 0)
		if cv.Kind() == constant.Unknown {
			t.fail(x, "literal %s", x.Value)
		}
		return c19tVal{kind: c19tConst, cv: cv}
	case *ast.Ident:
		if v, ok := env.vars[x.Name]; ok {
			return c19tVal{kind: v.kind, code: t.coqVar(x), madeLen: v.madeLen}
		}
		switch x.Name {
		case "true", "false":
			return c19tVal{kind: c19tBool, code: x.Name}
		case "nil":
			return c19tVal{kind: c19tNil}
		case "EmptyDuration":
			return c19tVal{kind: c19tDur, code: "empty_duration"}
		}
		t.fail(x, "identifier %s is neither a local variable nor a known constant", x.Name)
	case *ast.SelectorExpr:
		if id, ok := x.X.(*ast.Ident); ok {
			if _, local := env.vars[id.Name]; !local && (id.Name == "math" || id.Name == "time") {
				if id.Name == "math" && x.Sel.Name == "MaxInt" {
					return c19tVal{kind: c19tInt, code: "max_int"}
				}
				t.fail(x, "%s.%s is not supported", id.Name, x.Sel.Name)
			}
		}
		var r c19tVal
		if nn, ok := env.nonnil[types.ExprString(x.X)]; ok {
			r = nn
		} else {
			r = t.expr(x.X, env)
			if r.kind == c19tOrgPtr || r.kind == c19tSpeciesPtr {
				t.fail(x, "%s is dereferenced where it is not known to be non-nil (a nil dereference panics: not translated)", t.text(x.X))
			}
		}
		strct := ""
		switch r.kind {
		case c19tExp:
			strct = "Experiment"
		case c19tTrial:
			strct = "Trial"
		case c19tGen:
			strct = "Generation"
		case c19tOrg:
			strct = "Organism"
		case c19tSpecies:
			strct = "Species"
		default:
			t.fail(x, "field %s of a value of type %s", x.Sel.Name, r.kind)
		}
		f, ok := t.lookupField(strct, x.Sel.Name)
		if !ok {
			t.fail(x, "field %s.%s is not part of the model's view (or not supported)", strct, x.Sel.Name)
		}
		if f.proj == "" {
			return c19tVal{kind: f.kind, code: r.code}
		}
		return c19tVal{kind: f.kind, code: "(" + f.proj + " " + r.code + ")"}
	case *ast.UnaryExpr:
		v := t.expr(x.X, env)
		switch x.Op {
		case token.NOT:
			if v.kind != c19tBool {
				t.fail(x, "! of a %s", v.kind)
			}
			return c19tVal{kind: c19tBool, code: "(negb " + v.code + ")"}
		case token.SUB:
			switch v.kind {
			case c19tConst:
				return c19tVal{kind: c19tConst, cv: constant.UnaryOp(token.SUB, v.cv, 0)}
			case c19tInt, c19tDur:
				return c19tVal{kind: v.kind, code: "(Z.opp " + v.code + ")"}
			}
		case token.ADD:
			if v.kind == c19tConst || v.kind == c19tInt || v.kind == c19tDur || v.kind == c19tFloat {
				return v
			}
		}
		t.fail(x, "unary %s on a %s", x.Op, v.kind)
	case *ast.BinaryExpr:
		return t.binary(x, env)
	case *ast.CallExpr:
		return t.call(x, env)
	}
	t.fail(e, "unsupported expression %s", t.text(e))
	return c19tVal{}
}

func (t *c19tTr) binary(x *ast.BinaryExpr, env c19tEnv) c19tVal {
	a, b := t.expr(x.X, env), t.expr(x.Y, env)
	switch x.Op {
	case token.LAND, token.LOR:
		if a.kind != c19tBool || b.kind != c19tBool {
			t.fail(x, "%s between %s and %s", x.Op, a.kind, b.kind)
		}
		// both operands are total and effect-free in this subset, so short-circuit evaluation is not observable
		op := "andb"
		if x.Op == token.LOR {
			op = "orb"
		}
		return c19tVal{kind: c19tBool, code: "(" + op + " " + a.code + " " + b.code + ")"}
	}
	if a.kind == c19tConst && b.kind == c19tConst {
		switch x.Op {
		case token.ADD, token.SUB, token.MUL:
			return c19tVal{kind: c19tConst, cv: constant.BinaryOp(a.cv, x.Op, b.cv)}
		}
		t.fail(x, "constant expression %s is not supported", t.text(x))
	}
	kind := a.kind
	if kind == c19tConst {
		kind = b.kind
	}
	if kind != c19tInt && kind != c19tDur && kind != c19tFloat {
		t.fail(x, "%s between %s and %s", x.Op, a.kind, b.kind)
	}
	ca, cb := t.coerce(x.X, a, kind), t.coerce(x.Y, b, kind)
	isZ := kind != c19tFloat
	if !isZ {
		t.usesN = true
	}
	arith := func(zop, fop string) c19tVal {
		if isZ {
			if zop == "" {
				t.fail(x, "%s on %s", x.Op, kind)
			}
			return c19tVal{kind: kind, code: "(" + zop + " " + ca + " " + cb + ")"}
		}
		return c19tVal{kind: kind, code: "(" + fop + " N " + ca + " " + cb + ")"}
	}
	cmp := func(zcode, fcode string) c19tVal {
		if isZ {
			return c19tVal{kind: c19tBool, code: zcode}
		}
		return c19tVal{kind: c19tBool, code: fcode}
	}
	switch x.Op {
	case token.ADD:
		return arith("Z.add", "n_add")
	case token.SUB:
		return arith("Z.sub", "n_sub")
	case token.MUL:
		if kind == c19tDur {
			t.fail(x, "product of two durations")
		}
		return arith("Z.mul", "n_mul")
	case token.QUO:
		return arith("Z.quot", "n_div") // Go's integer division truncates toward zero
	case token.LSS:
		return cmp("("+ca+" <? "+cb+")", "(n_ltb N "+ca+" "+cb+")")
	case token.LEQ:
		return cmp("("+ca+" <=? "+cb+")", "(n_leb N "+ca+" "+cb+")")
	case token.GTR:
		return cmp("("+cb+" <? "+ca+")", "(n_ltb N "+cb+" "+ca+")")
	case token.GEQ:
		return cmp("("+cb+" <=? "+ca+")", "(n_leb N "+cb+" "+ca+")")
	case token.EQL:
		return cmp("("+ca+" =? "+cb+")", "(n_eqb N "+ca+" "+cb+")")
	case token.NEQ:
		return cmp("(negb ("+ca+" =? "+cb+"))", "(negb (n_eqb N "+ca+" "+cb+"))")
	}
	t.fail(x, "operator %s", x.Op)
	return c19tVal{}
}

// isType reports whether the expression is the named type (plain identifier or pkg.Name)
func c19tIsType(e ast.Expr, name string) bool { return types.ExprString(e) == name }

func (t *c19tTr) call(x *ast.CallExpr, env c19tEnv) c19tVal {
	if x.Ellipsis != token.NoPos {
		t.fail(x, "variadic call")
	}
	fun := x.Fun
	if p, ok := fun.(*ast.ParenExpr); ok {
		fun = p.X
	}
	if id, ok := fun.(*ast.Ident); ok {
		if _, local := env.vars[id.Name]; local {
			t.fail(x, "call of the local %s", id.Name)
		}
		if len(x.Args) != 1 {
			t.fail(x, "%s with %d arguments", id.Name, len(x.Args))
		}
		switch id.Name {
		case "len":
			v := t.expr(x.Args[0], env)
			if v.kind != c19tTrials && v.kind != c19tGens && v.kind != c19tFloats {
				t.fail(x, "len of a %s", v.kind)
			}
			return c19tVal{kind: c19tInt, code: "(Z.of_nat (length " + v.code + "))"}
		case "float64":
			v := t.expr(x.Args[0], env)
			switch v.kind {
			case c19tFloat:
				return v
			case c19tConst:
				return c19tVal{kind: c19tFloat, code: t.coerce(x, v, c19tFloat)}
			case c19tInt:
				t.usesN = true
				return c19tVal{kind: c19tFloat, code: "(n_ofZ N " + v.code + ")"}
			}
			t.fail(x, "float64 of a %s", v.kind)
		case "int":
			v := t.expr(x.Args[0], env)
			switch v.kind {
			case c19tInt:
				return v
			case c19tConst:
				return c19tVal{kind: c19tInt, code: t.coerce(x, v, c19tInt)}
			}
			t.fail(x, "int of a %s", v.kind)
		}
		t.fail(x, "call of %s", id.Name)
	}
	sel, ok := fun.(*ast.SelectorExpr)
	if !ok {
		t.fail(x, "unsupported call %s", t.text(x))
	}
	if id, ok := sel.X.(*ast.Ident); ok {
		if _, local := env.vars[id.Name]; !local && (id.Name == "time" || id.Name == "math") {
			if id.Name == "time" && sel.Sel.Name == "Duration" && len(x.Args) == 1 {
				v := t.expr(x.Args[0], env)
				switch v.kind {
				case c19tDur:
					return v
				case c19tInt: // both are 64-bit integers: the conversion keeps the value
					return c19tVal{kind: c19tDur, code: v.code}
				case c19tConst:
					return c19tVal{kind: c19tDur, code: t.coerce(x, v, c19tDur)}
				}
				t.fail(x, "time.Duration of a %s", v.kind)
			}
			t.fail(x, "call of %s.%s", id.Name, sel.Sel.Name)
		}
	}
	// method call without arguments
	if len(x.Args) != 0 {
		t.fail(x, "method call with arguments: %s", t.text(x))
	}
	r := t.expr(sel.X, env)
	recv := ""
	switch r.kind {
	case c19tExp:
		recv = "Experiment"
	case c19tTrial:
		recv = "Trial"
	case c19tGen:
		if sel.Sel.Name == "ChampionComplexity" { // generation.go is not translated: the model's definition
			return c19tVal{kind: c19tInt, code: "(g_champion_complexity " + r.code + ")"}
		}
		t.fail(x, "method Generation.%s is not supported", sel.Sel.Name)
	case c19tFloats:
		if sel.Sel.Name == "Mean" { // floats.go (gonum) is modelled in model/Stats.v, with the alignment bit of the model
			t.usesN = true
			return c19tVal{kind: c19tFloat, code: "(F_mean N true " + r.code + ")"}
		}
		t.fail(x, "method Floats.%s is not supported", sel.Sel.Name)
	default:
		t.fail(x, "method %s of a value of type %s", sel.Sel.Name, r.kind)
	}
	tg, ok := t.done[recv+"."+sel.Sel.Name]
	if !ok {
		t.fail(x, "call of %s.%s, which is not among the methods translated before this one", recv, sel.Sel.Name)
	}
	return c19tVal{kind: tg.result, code: "(gen_" + recv + "_" + sel.Sel.Name + " " + r.code + ")"}
}

func (t *c19tTr) declare(id *ast.Ident, v c19tVar, env c19tEnv) c19tEnv {
	if id.Name == "_" {
		t.fail(id, "blank identifier in a declaration")
	}
	if c19tReserved[id.Name] {
		t.fail(id, "the local %s hides a name the translator relies on", id.Name)
	}
	if _, ok := env.vars[id.Name]; ok {
		t.fail(id, "the declaration of %s shadows an enclosing variable (not supported)", id.Name)
	}
	v.depth = env.depth
	return env.with(id.Name, v)
}

func (t *c19tTr) typeKind(e ast.Expr) c19tKind {
	switch types.ExprString(e) {
	case "int":
		return c19tInt
	case "float64":
		return c19tFloat
	case "bool":
		return c19tBool
	case "time.Duration":
		return c19tDur
	case "Floats", "[]float64":
		return c19tFloats
	}
	t.fail(e, "local of type %s", types.ExprString(e))
	return 0
}

// makeFloats recognises make([]float64, len(S)) / make(Floats, len(S)) and returns the list of zeros and the text of S
func (t *c19tTr) makeFloats(e ast.Expr, env c19tEnv) (c19tVal, bool) {
	c, ok := e.(*ast.CallExpr)
	if !ok {
		return c19tVal{}, false
	}
	id, ok := c.Fun.(*ast.Ident)
	if !ok || id.Name != "make" {
		return c19tVal{}, false
	}
	if _, local := env.vars["make"]; local {
		return c19tVal{}, false
	}
	if len(c.Args) != 2 || (types.ExprString(c.Args[0]) != "[]float64" && types.ExprString(c.Args[0]) != "Floats") {
		t.fail(c, "make: only make([]float64, len(s)) and make(Floats, len(s)) are supported")
	}
	lc, ok := c.Args[1].(*ast.CallExpr)
	if !ok || len(lc.Args) != 1 || types.ExprString(lc.Fun) != "len" {
		t.fail(c, "make: the length must be len(<slice>)")
	}
	n := t.expr(c.Args[1], env)
	t.usesN = true
	return c19tVal{kind: c19tFloats, code: "(repeat (n_zero N) (Z.to_nat " + n.code + "))", madeLen: types.ExprString(lc.Args[0])}, true
}

// ifCond renders `if c { then } else { else }`.  A conjunction is evaluated left to right as Go does (the right
// operand only when the left one holds); `p != nil` on a pointer of the model's view becomes a match that binds the
// pointee, and the branch taken when it holds is translated knowing that p is not nil.
func (t *c19tTr) ifCond(c ast.Expr, env c19tEnv, thenF func(c19tEnv) string, elseF func() string) string {
	switch x := c.(type) {
	case *ast.ParenExpr:
		return t.ifCond(x.X, env, thenF, elseF)
	case *ast.BinaryExpr:
		if x.Op == token.LAND {
			return t.ifCond(x.X, env, func(env1 c19tEnv) string { return t.ifCond(x.Y, env1, thenF, elseF) }, elseF)
		}
		if x.Op == token.NEQ || x.Op == token.EQL {
			pe := x.X
			other := x.Y
			if id, ok := pe.(*ast.Ident); ok && id.Name == "nil" {
				pe, other = x.Y, x.X
			}
			if id, ok := other.(*ast.Ident); ok && id.Name == "nil" {
				if _, local := env.vars["nil"]; local {
					t.fail(x, "nil is a local variable")
				}
				if x.Op == token.EQL {
					t.fail(x, "`== nil`: only `p != nil` is supported")
				}
				key := types.ExprString(pe)
				if _, known := env.nonnil[key]; known {
					t.fail(x, "%s is already known to be non-nil", key)
				}
				p := t.expr(pe, env)
				var pk c19tKind
				switch p.kind {
				case c19tOrgPtr:
					pk = c19tOrg
				case c19tSpeciesPtr:
					pk = c19tSpecies
				default:
					t.fail(x, "comparison of a %s with nil", p.kind)
				}
				t.fresh++
				bound := fmt.Sprintf("p%d", t.fresh)
				return "match " + p.code + " with\n| Some " + bound + " =>\n" + c19tIndent(thenF(env.withNonNil(key, c19tVal{kind: pk, code: bound}))) +
					"\n| None =>\n" + c19tIndent(elseF()) + "\nend"
			}
		}
	}
	v := t.expr(c, env)
	if v.kind != c19tBool {
		t.fail(c, "condition of type %s", v.kind)
	}
	return "(if " + v.code + " then\n" + c19tIndent(thenF(env)) + "\nelse\n" + c19tIndent(elseF()) + ")"
}

func (t *c19tTr) stmts(list []ast.Stmt, env c19tEnv, ctx c19tCtx, k func(c19tEnv) string) string {
	if len(list) == 0 {
		return k(env)
	}
	s := list[0]
	rest := func(env2 c19tEnv) string { return t.stmts(list[1:], env2, ctx, k) }
	block := func(b *ast.BlockStmt, env1 c19tEnv, after func(c19tEnv) string) string {
		return t.stmts(b.List, env1.push(), ctx, func(inner c19tEnv) string { return after(inner.popTo(env1)) })
	}
	switch x := s.(type) {
	case *ast.EmptyStmt:
		return rest(env)
	case *ast.BlockStmt:
		return block(x, env, rest)
	case *ast.DeclStmt:
		gd, ok := x.Decl.(*ast.GenDecl)
		if !ok || gd.Tok != token.VAR {
			t.fail(x, "unsupported declaration")
		}
		out := ""
		for _, sp := range gd.Specs {
			vs := sp.(*ast.ValueSpec)
			if vs.Type == nil {
				t.fail(vs, "var without a type")
			}
			kind := t.typeKind(vs.Type)
			if len(vs.Values) != 0 && len(vs.Values) != len(vs.Names) {
				t.fail(vs, "var with a multi-valued initialiser")
			}
			for i, id := range vs.Names {
				var code, madeLen string
				if len(vs.Values) == 0 {
					switch kind {
					case c19tInt, c19tDur:
						code = "0"
					case c19tFloat:
						t.usesN = true
						code = "(n_zero N)"
					case c19tBool:
						code = "false"
					default:
						t.fail(vs, "var of type %s without an initialiser", kind)
					}
				} else if mv, ok := t.makeFloats(vs.Values[i], env); ok {
					if kind != c19tFloats {
						t.fail(vs, "make(...) assigned to a %s", kind)
					}
					code, madeLen = mv.code, mv.madeLen
				} else {
					code = t.coerce(vs.Values[i], t.expr(vs.Values[i], env), kind)
				}
				out += "let " + t.coqVar(id) + " : " + kind.coqType() + " := " + code + " in\n"
				env = t.declare(id, c19tVar{kind: kind, madeLen: madeLen}, env)
			}
		}
		return out + rest(env)
	case *ast.AssignStmt:
		return t.assign(x, env, ctx, rest)
	case *ast.IncDecStmt:
		id, ok := x.X.(*ast.Ident)
		if !ok {
			t.fail(x, "%s of something that is not a local", x.Tok)
		}
		v, ok := env.vars[id.Name]
		if !ok || v.kind != c19tInt {
			t.fail(x, "%s of %s, which is not an int local", x.Tok, id.Name)
		}
		if ctx.inLoop && id.Name == ctx.loopKey {
			t.fail(x, "%s of the loop key %s", x.Tok, id.Name)
		}
		op := "Z.add"
		if x.Tok == token.DEC {
			op = "Z.sub"
		}
		return "let " + t.coqVar(id) + " := (" + op + " " + t.coqVar(id) + " 1) in\n" + rest(env)
	case *ast.IfStmt:
		envIf := env.push()
		pre := ""
		if x.Init != nil {
			as, ok := x.Init.(*ast.AssignStmt)
			if !ok || as.Tok != token.DEFINE || len(as.Lhs) != 1 || len(as.Rhs) != 1 {
				t.fail(x.Init, "if with an init statement other than `x := e`")
			}
			id, ok := as.Lhs[0].(*ast.Ident)
			if !ok {
				t.fail(as, "if init")
			}
			v := t.expr(as.Rhs[0], envIf)
			if v.kind == c19tConst {
				t.fail(as, "constant in an if init")
			}
			pre = "let " + t.coqVar(id) + " := " + v.code + " in\n"
			envIf = t.declare(id, c19tVar{kind: v.kind}, envIf)
		}
		after := func(inner c19tEnv) string { return rest(inner.popTo(env)) }
		thenF := func(envT c19tEnv) string { return block(x.Body, envT, after) }
		elseF := func() string {
			switch el := x.Else.(type) {
			case nil:
				return after(envIf)
			case *ast.BlockStmt:
				return block(el, envIf, after)
			case *ast.IfStmt:
				return t.stmts([]ast.Stmt{el}, envIf, ctx, after)
			}
			t.fail(x.Else, "unsupported else branch")
			return ""
		}
		return pre + t.ifCond(x.Cond, envIf, thenF, elseF)
	case *ast.ReturnStmt:
		if len(list) != 1 {
			t.fail(list[1], "statement after a return")
		}
		if len(x.Results) != 1 {
			t.fail(x, "return with %d results", len(x.Results))
		}
		v := t.expr(x.Results[0], env)
		return ctx.wrapRet(t.coerce(x.Results[0], v, ctx.retKind))
	case *ast.RangeStmt:
		return t.rangeLoop(x, env, ctx, rest)
	}
	t.fail(s, "unsupported statement %s", strings.SplitN(t.text(s), "\n", 2)[0])
	return ""
}

func (t *c19tTr) assign(s *ast.AssignStmt, env c19tEnv, ctx c19tCtx, rest func(c19tEnv) string) string {
	if len(s.Lhs) != len(s.Rhs) {
		t.fail(s, "assignment of %d values to %d places", len(s.Rhs), len(s.Lhs))
	}
	switch s.Tok {
	case token.DEFINE:
		vals := make([]c19tVal, len(s.Rhs))
		for i, r := range s.Rhs {
			if mv, ok := t.makeFloats(r, env); ok {
				vals[i] = mv
			} else {
				vals[i] = t.expr(r, env)
			}
		}
		out := ""
		for i, l := range s.Lhs {
			id, ok := l.(*ast.Ident)
			if !ok {
				t.fail(l, "`:=` to something that is not an identifier")
			}
			v := vals[i]
			kind, code := v.kind, v.code
			if kind == c19tConst {
				if v.cv.Kind() == constant.Int {
					kind = c19tInt
				} else {
					kind = c19tFloat
				}
				code = t.coerce(s.Rhs[i], v, kind)
			}
			switch kind {
			case c19tInt, c19tFloat, c19tDur, c19tBool, c19tFloats:
			default:
				t.fail(s, "local of type %s", kind)
			}
			if len(s.Lhs) > 1 {
				for _, r := range s.Rhs {
					ast.Inspect(r, func(n ast.Node) bool {
						if rid, ok := n.(*ast.Ident); ok && rid.Name == id.Name {
							t.fail(s, "parallel definition mentions %s on the right", id.Name)
						}
						return true
					})
				}
			}
			out += "let " + t.coqVar(id) + " : " + kind.coqType() + " := " + code + " in\n"
			env = t.declare(id, c19tVar{kind: kind, madeLen: v.madeLen}, env)
		}
		return out + rest(env)
	case token.ASSIGN, token.ADD_ASSIGN, token.SUB_ASSIGN, token.MUL_ASSIGN, token.QUO_ASSIGN:
		if len(s.Lhs) != 1 {
			t.fail(s, "parallel assignment")
		}
		// x[i] = e : only with i the key of the enclosing range loop over S and x made with len(S)
		if ix, ok := s.Lhs[0].(*ast.IndexExpr); ok {
			if s.Tok != token.ASSIGN {
				t.fail(s, "%s on a slice element", s.Tok)
			}
			xid, ok1 := ix.X.(*ast.Ident)
			iid, ok2 := ix.Index.(*ast.Ident)
			if !ok1 || !ok2 {
				t.fail(s, "indexed assignment %s", t.text(s.Lhs[0]))
			}
			xv, ok := env.vars[xid.Name]
			if !ok || xv.kind != c19tFloats {
				t.fail(s, "%s is not a Floats local", xid.Name)
			}
			if !ctx.inLoop || ctx.loopKey == "" || iid.Name != ctx.loopKey {
				t.fail(s, "index %s is not the key variable of the enclosing range loop", iid.Name)
			}
			if xv.madeLen == "" || xv.madeLen != ctx.loopOver {
				t.fail(s, "%s was not made with the length of the slice the loop ranges over (%s vs %s)", xid.Name, xv.madeLen, ctx.loopOver)
			}
			v := t.coerce(s.Rhs[0], t.expr(s.Rhs[0], env), c19tFloat)
			return "let " + t.coqVar(xid) + " := (go_set " + t.coqVar(xid) + " " + t.coqVar(iid) + " " + v + ") in\n" + rest(env)
		}
		id, ok := s.Lhs[0].(*ast.Ident)
		if !ok {
			t.fail(s, "assignment to %s", t.text(s.Lhs[0]))
		}
		lv, ok := env.vars[id.Name]
		if !ok {
			t.fail(s, "assignment to %s, which is not a local variable", id.Name)
		}
		if ctx.inLoop && id.Name == ctx.loopKey {
			t.fail(s, "assignment to the loop key %s", id.Name)
		}
		if lv.kind == c19tFloats || lv.kind == c19tTrial || lv.kind == c19tGen {
			t.fail(s, "assignment to the %s variable %s", lv.kind, id.Name)
		}
		rhs := s.Rhs[0]
		var v c19tVal
		if s.Tok == token.ASSIGN {
			v = t.expr(rhs, env)
		} else {
			op := map[token.Token]token.Token{token.ADD_ASSIGN: token.ADD, token.SUB_ASSIGN: token.SUB,
				token.MUL_ASSIGN: token.MUL, token.QUO_ASSIGN: token.QUO}[s.Tok]
			v = t.binary(&ast.BinaryExpr{X: id, OpPos: s.TokPos, Op: op, Y: rhs}, env)
		}
		return "let " + t.coqVar(id) + " := " + t.coerce(rhs, v, lv.kind) + " in\n" + rest(env)
	}
	t.fail(s, "assignment operator %s", s.Tok)
	return ""
}

// assigned: enclosing variables the loop body assigns, in declaration order
func (t *c19tTr) assigned(body *ast.BlockStmt, outer c19tEnv) []string {
	set := map[string]bool{}
	note := func(e ast.Expr) {
		if ix, ok := e.(*ast.IndexExpr); ok {
			e = ix.X
		}
		if id, ok := e.(*ast.Ident); ok {
			if _, isOuter := outer.vars[id.Name]; isOuter {
				set[id.Name] = true
			}
		}
	}
	ast.Inspect(body, func(n ast.Node) bool {
		switch x := n.(type) {
		case *ast.AssignStmt:
			if x.Tok != token.DEFINE {
				for _, l := range x.Lhs {
					note(l)
				}
			}
		case *ast.IncDecStmt:
			note(x.X)
		}
		return true
	})
	names := make([]string, 0, len(set))
	for n := range set {
		names = append(names, n)
	}
	sort.Slice(names, func(i, j int) bool { return outer.vars[names[i]].order < outer.vars[names[j]].order })
	return names
}

func (t *c19tTr) rangeLoop(s *ast.RangeStmt, env c19tEnv, ctx c19tCtx, rest func(c19tEnv) string) string {
	if ctx.inLoop {
		t.fail(s, "nested loop")
	}
	if s.Tok != token.DEFINE || s.Key == nil || s.Value == nil {
		t.fail(s, "only `for _, v := range s` and `for i, v := range s` are supported")
	}
	kid, ok1 := s.Key.(*ast.Ident)
	vid, ok2 := s.Value.(*ast.Ident)
	if !ok1 || !ok2 || vid.Name == "_" {
		t.fail(s, "range variables must be identifiers (the value not blank)")
	}
	over := t.expr(s.X, env)
	var ek c19tKind
	switch over.kind {
	case c19tTrials:
		ek = c19tTrial
	case c19tGens:
		ek = c19tGen
	default:
		t.fail(s.X, "range over a %s", over.kind)
	}
	hasRet := false
	ast.Inspect(s.Body, func(n ast.Node) bool {
		if _, ok := n.(*ast.ReturnStmt); ok {
			hasRet = true
		}
		return true
	})
	names := t.assigned(s.Body, env)
	vars := make([]string, len(names))
	for i, n := range names {
		vars[i] = "v_" + n
	}
	tuple, lamPat, letPat, inlPat := "tt", "(_ : unit)", "", "_"
	switch len(vars) {
	case 0:
	case 1:
		tuple, lamPat, letPat, inlPat = vars[0], vars[0], vars[0], vars[0]
	default:
		tuple = "(" + strings.Join(vars, ", ") + ")"
		lamPat, letPat, inlPat = "'"+tuple, "'"+tuple, tuple
	}
	inner := env.push()
	elem := "(" + t.coqVar(vid) + " : " + ek.coqType() + ")"
	list := over.code
	bctx := ctx
	bctx.inLoop, bctx.loopKey, bctx.loopOver = true, "", types.ExprString(s.X)
	inner = t.declare(vid, c19tVar{kind: ek}, inner)
	if kid.Name != "_" {
		inner = t.declare(kid, c19tVar{kind: c19tInt}, inner)
		bctx.loopKey = kid.Name
		elem = "'((" + t.coqVar(kid) + ", " + t.coqVar(vid) + ") : Z * " + ek.coqType() + ")"
		list = "(go_indexed " + list + ")"
	}
	outer := env
	if !hasRet {
		if len(vars) == 0 {
			t.fail(s, "a loop that neither assigns an enclosing variable nor returns")
		}
		body := t.stmts(s.Body.List, inner, bctx, func(c19tEnv) string { return tuple })
		return "let " + letPat + " := fold_left (fun " + lamPat + " " + elem + " =>\n" + c19tIndent(c19tIndent(body)) + ")\n    " +
			list + " " + tuple + " in\n" + rest(outer)
	}
	bctx.wrapRet = func(r string) string { return "(inr " + r + ")" }
	body := t.stmts(s.Body.List, inner, bctx, func(c19tEnv) string { return "(inl " + tuple + ")" })
	return "match go_range (fun " + lamPat + " " + elem + " =>\n" + c19tIndent(c19tIndent(body)) + ")\n    " + list + " " + tuple + " with\n" +
		"| inr go_ret => " + ctx.wrapRet("go_ret") + "\n| inl " + inlPat + " =>\n" + c19tIndent(rest(outer)) + "\nend"
}

// c19tCheckTypes: the struct fields, named slice types and the constant the translation relies on are what it assumes
func c19tCheckTypes(dir string, pkg string) error {
	fset := token.NewFileSet()
	structs := map[string]*ast.StructType{}
	named := map[string]string{}
	emptyDur := ""
	ents, err := os.ReadDir(dir)
	if err != nil {
		return err
	}
	for _, ent := range ents {
		n := ent.Name()
		if ent.IsDir() || !strings.HasSuffix(n, ".go") || strings.HasSuffix(n, "_test.go") {
			continue
		}
		f, err := parser.ParseFile(fset, filepath.Join(dir, n), nil, 0)
		if err != nil {
			return err
		}
		for _, d := range f.Decls {
			gd, ok := d.(*ast.GenDecl)
			if !ok {
				continue
			}
			for _, sp := range gd.Specs {
				switch ts := sp.(type) {
				case *ast.TypeSpec:
					if st, ok := ts.Type.(*ast.StructType); ok {
						structs[ts.Name.Name] = st
					} else {
						named[ts.Name.Name] = types.ExprString(ts.Type)
					}
				case *ast.ValueSpec:
					for i, id := range ts.Names {
						if id.Name == "EmptyDuration" {
							if gd.Tok != token.CONST || i >= len(ts.Values) {
								return fmt.Errorf("%s: EmptyDuration is not a constant with a value", fset.Position(id.Pos()))
							}
							emptyDur = types.ExprString(ts.Values[i])
							if ts.Type != nil {
								emptyDur = types.ExprString(ts.Type) + "(" + emptyDur + ")"
							}
						}
					}
				}
			}
		}
	}
	if pkg == "" {
		if emptyDur != "time.Duration(-1)" {
			return fmt.Errorf("%s: const EmptyDuration is %q, the model's empty_duration is time.Duration(-1)", dir, emptyDur)
		}
		for n, want := range c19tNamedTypes {
			if named[n] != want {
				return fmt.Errorf("%s: type %s is %q, expected %s", dir, n, named[n], want)
			}
		}
	}
	for _, f := range c19tFields {
		if f.pkg != pkg {
			continue
		}
		st := structs[f.strct]
		if st == nil {
			return fmt.Errorf("%s: struct %s not found", dir, f.strct)
		}
		found := false
		for _, fl := range st.Fields.List {
			if len(fl.Names) == 0 { // embedded
				if types.ExprString(fl.Type) == f.field && f.srcType == f.field {
					found = true
				} else if f.strct != "Experiment" {
					// (a promoted field or method could then be meant by a selector)
					return fmt.Errorf("%s: struct %s has the embedded field %s (method and field resolution through embedding is not modelled)", dir, f.strct, types.ExprString(fl.Type))
				}
				continue
			}
			for _, n := range fl.Names {
				if n.Name == f.field {
					if types.ExprString(fl.Type) != f.srcType {
						return fmt.Errorf("%s: field %s.%s has type %s, expected %s", dir, f.strct, f.field, types.ExprString(fl.Type), f.srcType)
					}
					found = true
				}
			}
		}
		if !found {
			return fmt.Errorf("%s: field %s.%s not found", dir, f.strct, f.field)
		}
	}
	if pkg != "" {
		return nil
	}
	// Experiment may embed Trials only
	for _, fl := range structs["Experiment"].Fields.List {
		if len(fl.Names) == 0 && types.ExprString(fl.Type) != "Trials" {
			return fmt.Errorf("%s: struct Experiment embeds %s", dir, types.ExprString(fl.Type))
		}
	}
	return nil
}

type c19tParsed struct {
	file *ast.File
	src  []byte
}

func c19tTranslate(outDir string) (err error) {
	dir := filepath.Join(repoRoot(), "experiment")
	if err := c19tCheckTypes(dir, ""); err != nil {
		return err
	}
	if err := c19tCheckTypes(filepath.Join(repoRoot(), "neat", "genetics"), "genetics"); err != nil {
		return err
	}
	fset := token.NewFileSet()
	files := map[string]c19tParsed{}
	for _, tg := range c19tTargets {
		if _, ok := files[tg.file]; ok {
			continue
		}
		path := filepath.Join(dir, tg.file)
		src, err := os.ReadFile(path)
		if err != nil {
			return err
		}
		f, err := parser.ParseFile(fset, path, src, 0)
		if err != nil {
			return err
		}
		for _, im := range f.Imports {
			p, _ := strconv.Unquote(im.Path.Value)
			for _, want := range []string{"time", "math"} {
				if im.Name != nil && im.Name.Name == want && p != want {
					return fmt.Errorf("%s: the name %s is bound to package %q", fset.Position(im.Pos()), want, p)
				}
				if p == want && im.Name != nil && im.Name.Name != want {
					return fmt.Errorf("%s: package %s is imported under the name %s", fset.Position(im.Pos()), want, im.Name.Name)
				}
			}
		}
		files[tg.file] = c19tParsed{f, src}
	}
	t := &c19tTr{fset: fset, done: map[string]c19tTarget{}}
	defer func() {
		if p := recover(); p != nil {
			if e, ok := p.(c19tError); ok {
				err = fmt.Errorf("%s", e.msg)
				return
			}
			panic(p)
		}
	}()
	var defs strings.Builder
	for _, tg := range c19tTargets {
		pf := files[tg.file]
		t.src = pf.src
		t.fn = tg.recv + "." + tg.name
		var fd *ast.FuncDecl
		for _, d := range pf.file.Decls {
			f, ok := d.(*ast.FuncDecl)
			if !ok || f.Name.Name != tg.name || f.Recv == nil || len(f.Recv.List) != 1 {
				continue
			}
			rt := types.ExprString(f.Recv.List[0].Type)
			if rt != "*"+tg.recv && rt != tg.recv {
				continue
			}
			if fd != nil {
				return fmt.Errorf("%s: two methods %s", fset.Position(f.Pos()), t.fn)
			}
			if rt != "*"+tg.recv {
				return fmt.Errorf("%s: method %s has a value receiver, expected *%s", fset.Position(f.Pos()), t.fn, tg.recv)
			}
			fd = f
		}
		if fd == nil {
			return fmt.Errorf("%s: method %s not found (the translator experaggr is supposed to translate it)", filepath.Join(dir, tg.file), t.fn)
		}
		if fd.Body == nil {
			t.fail(fd, "method without a body")
		}
		ft := fd.Type
		if ft.TypeParams != nil && len(ft.TypeParams.List) > 0 {
			t.fail(ft, "generic method")
		}
		if ft.Params != nil && len(ft.Params.List) != 0 {
			t.fail(ft, "the method takes parameters")
		}
		if ft.Results == nil || len(ft.Results.List) != 1 || len(ft.Results.List[0].Names) != 0 || types.ExprString(ft.Results.List[0].Type) != tg.resultSrc {
			t.fail(ft, "the result is not the single unnamed %s", tg.resultSrc)
		}
		if len(fd.Recv.List[0].Names) != 1 || fd.Recv.List[0].Names[0].Name == "_" {
			t.fail(fd, "receiver without a name")
		}
		recv := fd.Recv.List[0].Names[0]
		if c19tReserved[recv.Name] {
			t.fail(recv, "receiver name %q hides a name the translator relies on", recv.Name)
		}
		rk := c19tExp
		if tg.recv == "Trial" {
			rk = c19tTrial
		}
		env := c19tEnv{vars: map[string]c19tVar{}}
		env = env.with(recv.Name, c19tVar{kind: rk})
		t.usesN = false
		t.fresh = 0
		ctx := c19tCtx{retKind: tg.result, wrapRet: func(r string) string { return r }}
		term := t.stmts(fd.Body.List, env.push(), ctx, func(c19tEnv) string {
			t.fail(fd.Body, "control reaches the end of the function without a return")
			return ""
		})
		fmt.Fprintf(&defs, "(* experiment/%s:%d  func (%s *%s) %s() %s *)\n", tg.file, fset.Position(fd.Pos()).Line, recv.Name, tg.recv, tg.name, tg.resultSrc)
		fmt.Fprintf(&defs, "Definition gen_%s_%s (%s : %s) : %s :=\n%s.\n\n", tg.recv, tg.name, t.coqVar(recv), rk.coqType(), tg.result.coqType(), c19tIndent(term))
		t.done[t.fn] = tg
	}

	if err = os.MkdirAll(outDir, 0o755); err != nil {
		return err
	}
	tmp := filepath.Join(outDir, "ExperAggr.v.tmp")
	out, err := os.Create(tmp)
	if err != nil {
		return err
	}
	w := bufio.NewWriter(out)
	fmt.Fprintf(w, "(* GENERATED by `neatverif translate experaggr` from experiment/trial.go and experiment/experiment.go -- do not edit.\n")
	fmt.Fprintf(w, "   The bodies of the aggregate accessors translated construct by construct (harness/c19_translate.go), over the\n")
	fmt.Fprintf(w, "   record types of model/Exper.v and polymorphic in the number structure [num F] like the model.  v_<name> is the Go\n")
	fmt.Fprintf(w, "   variable <name>; e.Trials is the experiment itself (a list of trials); int and time.Duration are unbounded\n")
	fmt.Fprintf(w, "   integers (no wrap-around), their division is Z.quot (truncation toward zero); float64 operations are those of N;\n")
	fmt.Fprintf(w, "   a range loop without return is a fold_left over the enclosing variables its body assigns, one with a return is\n")
	fmt.Fprintf(w, "   [go_range], which stops at the first [inr]; make([]float64, len(s)) is a list of zeros and x[i] = v is [go_set]\n")
	fmt.Fprintf(w, "   (i is always the key of a range loop over s).  proofs/ExperAggrAgree.v proves every definition equal to the\n")
	fmt.Fprintf(w, "   hand-written one of model/Exper.v. *)\n")
	fmt.Fprintf(w, "From Coq Require Import ZArith List Bool.\nFrom NeatModel Require Import Res F64 Stats Exper.\nImport ListNotations.\nOpen Scope Z_scope.\n\n")
	fmt.Fprintf(w, "(* for _, a := range l { body }  with a body that may return: [inl s] = fell off the end with state s, [inr r] = returned r *)\n")
	fmt.Fprintf(w, "Fixpoint go_range {A S R : Type} (body : S -> A -> S + R) (l : list A) (s : S) : S + R :=\n")
	fmt.Fprintf(w, "  match l with\n  | [] => inl s\n  | a :: l' => match body s a with inl s' => go_range body l' s' | inr r => inr r end\n  end.\n\n")
	fmt.Fprintf(w, "(* for i, a := range l : the elements paired with their indices 0, 1, ... *)\n")
	fmt.Fprintf(w, "Fixpoint go_indexed_from {A : Type} (i : Z) (l : list A) : list (Z * A) :=\n")
	fmt.Fprintf(w, "  match l with [] => [] | a :: l' => (i, a) :: go_indexed_from (i + 1) l' end.\n")
	fmt.Fprintf(w, "Definition go_indexed {A : Type} (l : list A) : list (Z * A) := go_indexed_from 0 l.\n\n")
	fmt.Fprintf(w, "(* x[i] = v for an index within the slice (the translator only emits it where that holds) *)\n")
	fmt.Fprintf(w, "Fixpoint go_set_nat {A : Type} (x : list A) (i : nat) (v : A) : list A :=\n")
	fmt.Fprintf(w, "  match x, i with\n  | [], _ => []\n  | _ :: x', O => v :: x'\n  | a :: x', S i' => a :: go_set_nat x' i' v\n  end.\n")
	fmt.Fprintf(w, "Definition go_set {A : Type} (x : list A) (i : Z) (v : A) : list A := go_set_nat x (Z.to_nat i) v.\n\n")
	fmt.Fprintf(w, "Section ExperAggrGen.\nContext {F : Type} (N : num F).\n\n")
	fmt.Fprintf(w, "%s", defs.String())
	fmt.Fprintf(w, "End ExperAggrGen.\n")
	if err = w.Flush(); err != nil {
		return err
	}
	if err = out.Close(); err != nil {
		return err
	}
	dst := filepath.Join(outDir, "ExperAggr.v")
	if old, e := os.ReadFile(dst); e == nil {
		if nw, e2 := os.ReadFile(tmp); e2 == nil && string(old) == string(nw) {
			return os.Remove(tmp)
		}
	}
	return os.Rename(tmp, dst)
}
