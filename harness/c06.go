package main

import (
	"fmt"
	"math/rand"
	"reflect"

	"github.com/yaricom/goNEAT/v4/neat"
	"github.com/yaricom/goNEAT/v4/neat/genetics"
	neatmath "github.com/yaricom/goNEAT/v4/neat/math"
	"github.com/yaricom/goNEAT/v4/neat/network"
)

// C06: duplication gives an exact, independent copy; spawn = duplicate + weight perturbation

func init() {
	runners["C06"] = runC06
	replayers["C06"] = replayOps
}

// withModule returns a copy of g extended by one MIMO control gene over existing nodes
// moduleLinkTraits makes withModule give the module links traits of the genome (set by the C06 runner only: the
// file formats do not carry them)
var moduleLinkTraits bool

func withModule(r *rand.Rand, g *genetics.Genome, twice bool) *genetics.Genome {
	c, err := genetics.VDuplicate(g, g.Id)
	if err != nil {
		return nil
	}
	maxId, maxInnov := 0, int64(0)
	for _, n := range c.Nodes {
		if n.Id > maxId {
			maxId = n.Id
		}
	}
	for _, x := range c.Genes {
		if x.InnovationNum > maxInnov {
			maxInnov = x.InnovationNum
		}
	}
	var mods []*genetics.MIMOControlGene
	k := 1
	if twice {
		k = 2
	}
	descending := r.Intn(2) == 0
	for m := 0; m < k; m++ {
		cid := maxId + 1 + m
		if twice && descending {
			cid = maxId + 4 - 3*m // the EARLIER module owns the larger control-node id (ids maxId+4, maxId+1)
		}
		cn := network.NewNNode(cid, network.HiddenNeuron)
		cn.ActivationType = []neatmath.NodeActivationType{neatmath.MultiplyModuleActivation, neatmath.MaxModuleActivation, neatmath.MinModuleActivation}[r.Intn(3)]
		if r.Intn(2) == 0 && len(c.Traits) > 0 {
			cn.Trait = c.Traits[r.Intn(len(c.Traits))]
		}
		nin := 1 + r.Intn(2)
		for i := 0; i < nin; i++ {
			src := c.Nodes[r.Intn(len(c.Nodes))]
			cn.Incoming = append(cn.Incoming, network.NewLink(1.0+float64(i), src, cn, false))
		}
		dst := c.Nodes[r.Intn(len(c.Nodes))]
		cn.Outgoing = append(cn.Outgoing, network.NewLink(0.5, cn, dst, false))
		if moduleLinkTraits && len(c.Traits) > 0 {
			// module links that carry a trait of the genome (the readers never build such links, a caller can)
			for _, l := range cn.Incoming {
				l.Trait = c.Traits[r.Intn(len(c.Traits))]
			}
			cn.Outgoing[0].Trait = c.Traits[r.Intn(len(c.Traits))]
		}
		mods = append(mods, genetics.NewMIMOGene(cn, maxInnov+1+int64(m), 0.25*float64(m+1), r.Intn(4) != 0))
	}
	return genetics.NewModularGenome(c.Id, c.Traits, c.Nodes, c.Genes, mods)
}

// sharedState reports mutable objects reachable from both genomes
func sharedState(a, b *genetics.Genome) string {
	ptrs := map[uintptr]string{}
	add := func(v interface{}, what string) {
		rv := reflect.ValueOf(v)
		if rv.Kind() == reflect.Ptr && !rv.IsNil() {
			ptrs[rv.Pointer()] = what
		}
		if rv.Kind() == reflect.Slice && rv.Len() > 0 {
			ptrs[rv.Pointer()] = what
		}
	}
	walk := func(g *genetics.Genome, visit func(v interface{}, what string)) {
		for _, t := range g.Traits {
			visit(t, "trait")
			visit(t.Params, "trait params")
		}
		for _, n := range g.Nodes {
			visit(n, "node")
		}
		for _, x := range g.Genes {
			visit(x, "gene")
			visit(x.Link, "link")
			visit(x.Link.Params, "link params")
		}
		for _, m := range g.ControlGenes {
			visit(m, "module")
			visit(m.ControlNode, "control node")
			for _, l := range m.ControlNode.Incoming {
				visit(l, "module link")
			}
			for _, l := range m.ControlNode.Outgoing {
				visit(l, "module link")
			}
		}
	}
	walk(a, add)
	res := ""
	// trait objects referenced from the copy's nodes, genes and control nodes must be the copy's own
	own := map[*neat.Trait]bool{}
	for _, t := range b.Traits {
		own[t] = true
	}
	refs := []*neat.Trait{}
	for _, n := range b.Nodes {
		refs = append(refs, n.Trait)
	}
	for _, x := range b.Genes {
		refs = append(refs, x.Link.Trait)
	}
	for _, m := range b.ControlGenes {
		refs = append(refs, m.ControlNode.Trait)
		for _, l := range m.ControlNode.Incoming {
			refs = append(refs, l.Trait)
		}
		for _, l := range m.ControlNode.Outgoing {
			refs = append(refs, l.Trait)
		}
	}
	for _, t := range refs {
		if t != nil && !own[t] {
			return "the copy references a trait object that is not one of its own traits"
		}
	}
	walk(b, func(v interface{}, what string) {
		rv := reflect.ValueOf(v)
		var p uintptr
		if rv.Kind() == reflect.Ptr && !rv.IsNil() {
			p = rv.Pointer()
		} else if rv.Kind() == reflect.Slice && rv.Len() > 0 {
			p = rv.Pointer()
		} else {
			return
		}
		if w, ok := ptrs[p]; ok && res == "" {
			res = "shared " + w
		}
	})
	// references inside the copy must point into the copy
	for _, x := range b.Genes {
		if b.NodeWithId(x.Link.InNode.Id) != x.Link.InNode || b.NodeWithId(x.Link.OutNode.Id) != x.Link.OutNode {
			return "copy's gene points to a node outside the copy"
		}
	}
	return res
}

func runC06(r *Run) error {
	quiet()
	r.Res.Rule = "genomes reached by operator histories (disabled/recurrent genes, nil traits) and the same extended by 1-2 modules: duplicate compared field by field (Go oracle) and with the model (Coq); independence by aliasing scan and by mutating either side with every mutator; spawned populations compared with the start genome; non-trivial = genome has a disabled or recurrent gene, a nil trait or a module; distinct by genome value"
	o := newOpsGen(r, "C06")
	defer o.close()
	histories := r.N(25, 600)
	for h := 0; h < histories; h++ {
		f := newFamily(r.Rng)
		for s := 0; s < 24; s++ {
			_, _, _, out, _ := o.stepRec(f, s, 0.3, defaultMutWeights, "none") // evolve without emitting
			if out.err == nil && out.child != nil && wfGenome(out.child) == nil {
				f.members = append(f.members, out.child)
			}
		}
		for k := 0; k < 6; k++ {
			g := f.pick(r.Rng)
			if k%3 == 2 {
				moduleLinkTraits = h%2 == 1
				if m := withModule(r.Rng, g, k == 5); m != nil {
					g = m
				}
				moduleLinkTraits = false
			}
			c06One(r, o, g, f)
		}
		// spawn
		c06Spawn(r, f.pick(r.Rng), f.opts)
	}
	// trait lists that are not consecutive or not ascending (the library's own test genome has 1,3,2), with nodes
	// and genes that reference them: references are by id, so the copy must resolve them by id too
	for k, src := range []string{c06TraitsOutOfOrder, c06TraitsWithGaps, c06TraitsOutOfOrder} {
		g := readPlain(src, 1)
		if k == 2 {
			// traits with more parameters than the readers produce (Params is a slice: ten values each)
			for ti, t := range g.Traits {
				t.Params = append(t.Params, 0.125*float64(ti+1), -0.5)
			}
		}
		f := &family{members: []*genetics.Genome{g}, env: startEnv(g), opts: randOptions(r.Rng), start: g}
		c06One(r, o, g, f)
		for k := 0; k < 3; k++ {
			c, err := genetics.VDuplicate(g, 10+k)
			if err != nil {
				continue
			}
			rand.Seed(r.Rng.Int63())
			_, _ = genetics.VMutate("node_trait", c, f.env, f.env, f.opts, 1, 3)
			_, _ = genetics.VMutate("link_trait", c, f.env, f.env, f.opts, 1, 3)
			if wfGenome(c) == nil {
				c06One(r, o, c, f)
			}
		}
		c06Spawn(r, g, f.opts)
	}
	return nil
}

const c06TraitsOutOfOrder = "genomestart 1\n" +
	"trait 1 0.1 0 0 0 0 0 0 0\ntrait 3 0.3 0 0 0 0 0 0 0\ntrait 2 0.2 0 0 0 0 0 0 0\n" +
	"node 1 3 1 1 NullActivation\nnode 2 2 1 3 NullActivation\nnode 3 1 0 0 SigmoidSteepenedActivation\nnode 4 2 0 2 SigmoidSteepenedActivation\n" +
	"gene 2 1 3 0.5 false 1 0.5 true\ngene 3 3 4 1.5 false 2 1.5 false\ngene 1 2 4 0.25 false 3 0.25 true\ngene 3 4 3 -0.75 true 4 -0.75 true\n" +
	"genomeend 1\n"

const c06TraitsWithGaps = "genomestart 1\n" +
	"trait 2 0.1 0 0 0 0 0 0 0\ntrait 5 0.3 0 0 0 0 0 0 0\ntrait 9 0.2 0 0 0 0 0 0 0\n" +
	"node 1 9 1 1 NullActivation\nnode 2 5 1 3 NullActivation\nnode 3 2 0 0 SigmoidSteepenedActivation\nnode 4 5 0 2 SigmoidSteepenedActivation\n" +
	"gene 5 1 3 0.5 false 1 0.5 true\ngene 9 3 4 1.5 false 2 1.5 false\ngene 2 2 4 0.25 false 3 0.25 true\n" +
	"genomeend 1\n"

func c06NonTrivial(g *genetics.Genome) bool {
	if len(g.ControlGenes) > 0 {
		return true
	}
	for _, x := range g.Genes {
		if !x.IsEnabled || x.Link.IsRecurrent || x.Link.Trait == nil {
			return true
		}
	}
	return false
}

func c06One(r *Run, o *opsGen, g *genetics.Genome, f *family) {
	op := opSpec{Kind: "dup", NewId: 1000 + r.Rng.Intn(1000)}
	expressed := false
	if r.Rng.Intn(2) == 0 {
		// the original has been expressed before (its nodes point into its phenotype): none of that may reach the copy
		if _, err := g.Genesis(g.Id); err == nil {
			expressed = true
		}
	}
	before := snap(g)
	out := o.apply(op, g, nil, f.env, f.opts, true)
	in := o.lastInput
	bad := func(key, what string) { r.Fail(Failure{Key: key, What: what, Input: in}) }
	r.Count(before.str(), c06NonTrivial(g))
	r.Hist("modules", fmt.Sprint(len(g.ControlGenes)))
	if out.err != nil {
		bad("duplicate-error", "duplicate failed on a well-formed genome: "+out.err.Error())
		return
	}
	c := out.child
	if !snap(c).eq(before) || c.Id != op.NewId {
		bad("duplicate-not-equal", "duplicate differs genetically from the original")
		r.Sample(map[string]interface{}{"orig": before, "copy": snap(c)})
	}
	if !before.eq(snap(g)) {
		bad("duplicate-modified-original", "duplicate modified the original")
	}
	if s := sharedState(g, c); s != "" {
		bad("duplicate-shares-state", "original and copy share mutable state: "+s)
	}
	for _, n := range c.Nodes {
		if n.PhenotypeAnalogue != nil || len(n.Incoming) != 0 || len(n.Outgoing) != 0 {
			bad("duplicate-shares-state", fmt.Sprintf("node %d of the copy refers to network objects although the copy was never expressed (the original was expressed before: %v)", n.Id, expressed))
			break
		}
	}
	if len(g.ControlGenes) > 0 {
		return // mutators are defined for non-modular genomes
	}
	// mutate the copy with every mutator: the original must not change; then the other way round
	for k := range mutKinds {
		for side := 0; side < 2; side++ {
			a, errA := genetics.VDuplicate(g, 1)
			if errA != nil {
				continue
			}
			b, errB := genetics.VDuplicate(a, 2)
			if errB != nil {
				continue
			}
			target, other := b, a
			if side == 1 {
				target, other = a, b
			}
			otherBefore := snap(other)
			env := f.env.clone()
			rand.Seed(r.Rng.Int63())
			func() {
				defer func() { _ = recover() }()
				_, _ = genetics.VMutate(mutKinds[k], target, env, env, f.opts, 1, 2)
			}()
			if !otherBefore.eq(snap(other)) {
				which := "copy"
				if side == 1 {
					which = "original"
				}
				bad("mutation-leaks-"+mutKinds[k], "mutating the "+which+" with "+mutKinds[k]+" changed the other genome")
			}
		}
	}
	c06TwinHistory(r, g, f, bad)
	r.Sample(map[string]interface{}{"genome_genes": before.Genes, "modules": before.Mods})
}

// c06TwinHistory: an exact copy behaves like the original under every later history.  The original first gets a
// history of its own (an add-node inside the current innovation window, every gene re-enabled), is duplicated, and
// then both receive the same sequence of structural mutations under equal innovation records and equal seeds:
// the genomes must stay equal after every step (lookup structures a duplicate rebuilds lazily or copies must
// answer like the original's).
func c06TwinHistory(r *Run, g *genetics.Genome, f *family, bad func(key, what string)) {
	a, err := genetics.VDuplicate(g, 1)
	if err != nil {
		return
	}
	base := f.env.clone()
	step := func(kind string, x *genetics.Genome, env *venv, seed int64) (ok bool) {
		defer func() {
			if recover() != nil {
				ok = false
			}
		}()
		rand.Seed(seed)
		_, e := genetics.VMutate(kind, x, env, env, f.opts, 1, 2)
		return e == nil
	}
	if !step("add_node", a, base, r.Rng.Int63()) {
		return
	}
	for _, x := range a.Genes {
		x.IsEnabled = true
	}
	b, err := genetics.VDuplicate(a, 1)
	if err != nil {
		return
	}
	envA, envB := base.clone(), base.clone()
	kinds := []string{"add_node", "add_node", "add_link", "add_node", "connect_sensors", "add_node"}
	for k, kind := range kinds {
		seed := r.Rng.Int63()
		okA, okB := step(kind, a, envA, seed), step(kind, b, envB, seed)
		if okA != okB || !snap(a).eq(snap(b)) {
			bad("duplicate-diverges-under-same-history", fmt.Sprintf("original and copy differ after the same %d structural mutations (last: %s) under equal records and seeds", k+1, kind))
			return
		}
		if !okA {
			return
		}
		for _, x := range a.Genes {
			x.IsEnabled = true
		}
		for _, x := range b.Genes {
			x.IsEnabled = true
		}
	}
	r.Hist("twin_history", "equal")
}

func c06Spawn(r *Run, g *genetics.Genome, opts *neat.Options) {
	o := *opts
	o.PopSize = 5
	rand.Seed(r.Rng.Int63())
	pop, err := genetics.NewPopulation(g, &o)
	in := map[string]interface{}{"spawn_from": genomeText(g)}
	if err != nil {
		r.Fail(Failure{Key: "spawn-error", What: "NewPopulation failed: " + err.Error(), Input: in})
		return
	}
	base := snap(g)
	for _, org := range pop.Organisms {
		s := snap(org.Genotype)
		okk := len(s.Genes) == len(base.Genes) && fmt.Sprint(s.Nodes) == fmt.Sprint(base.Nodes) && fmt.Sprint(s.Traits) == fmt.Sprint(base.Traits)
		if okk {
			for i := range s.Genes {
				a1, a2, a3, _, a5, a6, _, a8 := geneKey(base.Genes[i])
				b1, b2, b3, bw, b5, b6, bm, b8 := geneKey(s.Genes[i])
				if a1 != b1 || a2 != b2 || a3 != b3 || a5 != b5 || a6 != b6 || a8 != b8 || bw != bm {
					okk = false
				}
			}
		}
		if !okk {
			r.Fail(Failure{Key: "spawn-topology", What: "a spawned organism differs from the start genome in more than weights and mutation numbers", Input: in})
			return
		}
	}
	r.Hist("spawned", "ok")
}
