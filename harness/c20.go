package main

import (
	"context"
	"encoding/json"
	"errors"
	"fmt"
	"math"

	"github.com/yaricom/goNEAT/v4/experiment"
	"github.com/yaricom/goNEAT/v4/neat"
	"github.com/yaricom/goNEAT/v4/neat/genetics"
)

// C20: scripted evaluator / observer through the real Experiment.Execute.
// outcomes: 0 unsolved, 1 solved, 2 evaluator error, 3 cancel (unsolved), 4 cancel and solved,
// 5 the evaluator marks the generation solved AND returns an error, 6 it cancels AND returns an error,
// 7 the evaluator returns an error that wraps context.Canceled (its own derived context failed) while the run's
//   context is live: still an evaluator error (the model sees outcome 2).

func init() {
	runners["C20"] = runC20
	replayers["C20"] = replayC20
}

var errEvalC20 = errors.New("scripted evaluator error")

// an evaluator failure caused by a context of the evaluator's own
var errEvalCtxC20 = fmt.Errorf("%w: worker pool: %w", errEvalC20, context.Canceled)

type c20Input struct {
	Obs    bool    `json:"observer"`
	Script [][]int `json:"script"` // [trial][generation]
	// Prealloc > 0: Experiment.Trials is pre-allocated with len(Script)+Prealloc entries by the caller;
	// Reuse: the same Experiment value first executed a longer run (two more trials, all unsolved)
	Prealloc int  `json:"prealloc,omitempty"`
	Reuse    bool `json:"reuse,omitempty"`
	// Huge: NumGenerations is "run until solved" (math.MaxInt / 1<<56) instead of the row length; only used with
	// scripts in which every trial has an outcome other than "unsolved" (the run then ends inside the script)
	Huge int `json:"huge_generation_limit,omitempty"`
	// Nested: the context the experiment's options are attached to already descends from a context carrying OTHER
	// options (an application base context, a reloaded configuration): the innermost options govern the run
	Nested int `json:"nested_options_context,omitempty"`
	// Short > 0: Experiment.Trials is non-nil but Short entries SHORTER than the number of trials (an empty
	// non-nil slice; a value used before with fewer runs): still every trial is recorded
	Short int `json:"short_trials_slice,omitempty"`
	// NoChamp: the evaluator reports solved generations without filling the generation's statistics (Champion stays nil)
	NoChamp bool `json:"no_champion,omitempty"`
}

type c20Pop struct {
	pop   *genetics.Population
	first *genetics.Organism // identity of the first organism when last seen
	turns int
	evals int
}

type c20Env struct {
	script  [][]int
	cancel  context.CancelFunc
	trace   [][]int64
	pops    []*c20Pop // distinct populations in order of first appearance
	noChamp bool
	byT     map[int]*c20Pop // population evaluated in trial t
}

func (e *c20Env) popFor(p *genetics.Population) (int, *c20Pop) {
	for i, q := range e.pops {
		if q.pop == p {
			return i, q
		}
	}
	q := &c20Pop{pop: p}
	if len(p.Organisms) > 0 {
		q.first = p.Organisms[0]
	}
	e.pops = append(e.pops, q)
	return len(e.pops) - 1, q
}

// refresh counts a turnover when the organisms of a known population were replaced
func (q *c20Pop) refresh() {
	var cur *genetics.Organism
	if len(q.pop.Organisms) > 0 {
		cur = q.pop.Organisms[0]
	}
	if cur != q.first {
		q.turns++
		q.first = cur
	}
}

func (e *c20Env) GenerationEvaluate(_ context.Context, pop *genetics.Population, epoch *experiment.Generation) error {
	idx, q := e.popFor(pop)
	q.refresh()
	q.evals++
	e.byT[epoch.TrialId] = q
	e.trace = append(e.trace, []int64{2, int64(epoch.TrialId), int64(epoch.Id), int64(idx), int64(q.turns)})
	for i, o := range pop.Organisms {
		o.Fitness = 1.0 + float64(i%7)
	}
	if !e.noChamp {
		epoch.FillPopulationStatistics(pop)
	}
	if epoch.TrialId < len(e.script) && epoch.Id >= len(e.script[epoch.TrialId])+2 {
		// the run is two generations past anything the script (and so the model) can ask for: stop it here, the
		// trace already differs from the model's
		return errEvalC20
	}
	o := 0
	if epoch.TrialId < len(e.script) && epoch.Id < len(e.script[epoch.TrialId]) {
		o = e.script[epoch.TrialId][epoch.Id]
	}
	switch o {
	case 1:
		epoch.Solved = true
	case 2:
		return errEvalC20
	case 3:
		e.cancel()
	case 4:
		e.cancel()
		epoch.Solved = true
	case 5:
		epoch.Solved = true
		return errEvalC20
	case 6:
		e.cancel()
		return errEvalC20
	case 7:
		return errEvalCtxC20
	}
	return nil
}

type c20Obs struct{ e *c20Env }

func (o c20Obs) TrialRunStarted(t *experiment.Trial) {
	o.e.trace = append(o.e.trace, []int64{1, int64(t.Id)})
}
func (o c20Obs) TrialRunFinished(t *experiment.Trial) {
	o.e.trace = append(o.e.trace, []int64{6, int64(t.Id), int64(len(t.Generations))})
}
func (o c20Obs) EpochEvaluated(t *experiment.Trial, g *experiment.Generation) {
	o.e.trace = append(o.e.trace, []int64{4, int64(t.Id), int64(g.Id)})
}

func c20EveryTrialDecides(script [][]int) bool {
	for _, row := range script {
		decides := false
		for _, o := range row {
			if o != 0 {
				decides = true
			}
		}
		if !decides {
			return false
		}
	}
	return len(script) > 0
}

// c20Exec runs the real Execute; returns the observable trace (record events merged in) and status
func c20Exec(in c20Input) (trace [][]int64, status int, execErr error) {
	quiet()
	opts := baseOptions()
	opts.PopSize = 6
	opts.NumRuns = len(in.Script)
	opts.NumGenerations = 0
	if len(in.Script) > 0 {
		opts.NumGenerations = len(in.Script[0])
	}
	if in.Huge > 0 && c20EveryTrialDecides(in.Script) {
		opts.NumGenerations = []int{math.MaxInt, math.MaxInt / 2, 1 << 56}[in.Huge%3]
	}
	base := context.Background()
	if in.Nested > 0 {
		other := *opts
		other.NumRuns = opts.NumRuns + in.Nested
		other.NumGenerations = len(in.Script[0]) + 1 + in.Nested%3
		if in.Nested%2 == 0 {
			other.NumRuns, other.NumGenerations = 1, 1
		}
		base = neat.NewContext(base, &other)
	}
	ctx, cancel := context.WithCancel(base)
	defer cancel()
	env := &c20Env{script: in.Script, cancel: cancel, byT: map[int]*c20Pop{}, noChamp: in.NoChamp}
	exp := experiment.Experiment{}
	if in.Short > 0 {
		n := len(in.Script) - in.Short
		if n < 0 {
			n = 0
		}
		exp.Trials = make(experiment.Trials, n)
		for i := range exp.Trials {
			exp.Trials[i].Id = -1
		}
	}
	if in.Prealloc > 0 {
		exp.Trials = make(experiment.Trials, len(in.Script)+in.Prealloc)
		for i := range exp.Trials {
			exp.Trials[i].Id = -1
		}
	}
	if in.Reuse && len(in.Script) > 0 {
		// an earlier, longer run of the same Experiment value
		prev := make([][]int, len(in.Script)+2)
		for i := range prev {
			prev[i] = make([]int, len(in.Script[0]))
		}
		po := *opts
		po.NumRuns = len(prev)
		pctx, pcancel := context.WithCancel(context.Background())
		penv := &c20Env{script: prev, cancel: pcancel, byT: map[int]*c20Pop{}}
		_ = exp.Execute(neat.NewContext(pctx, &po), readPlain(tinyGenome, 1), penv, nil)
		pcancel()
		for i := range exp.Trials {
			exp.Trials[i].Id = -1
			exp.Trials[i].Generations = nil
			exp.Trials[i].Duration = 0
		}
	}
	var obs experiment.TrialRunObserver
	if in.Obs {
		obs = c20Obs{env}
	}
	// record events are not callbacks: they are read off Experiment.Trials afterwards and merged
	// into the trace right before the matching finish event (or at the position the model puts them
	// when there is no observer: after the last event of the trial)
	var err error
	panicked := false
	func() {
		defer func() {
			if p := recover(); p != nil {
				panicked = true
				err = fmt.Errorf("Execute panicked: %v", p)
			}
		}()
		err = exp.Execute(neat.NewContext(ctx, opts), readPlain(tinyGenome, 1), env, obs)
	}()
	execErr = err
	switch {
	case panicked:
		status = 8
	case err == nil:
		status = 0
	case errors.Is(err, errEvalC20):
		status = 1
	case errors.Is(err, context.Canceled):
		status = 2
	default:
		status = 9
	}
	// which trials were recorded: Trials is preallocated with zero values, a recorded trial t>0 has Id t;
	// trial 0 is recorded iff any later event exists for it... we use: recorded iff a trial with larger
	// index was spawned/evaluated, or the run returned nil; conservatively read all entries that look written
	recorded := map[int][2]int{}
	for i, tr := range exp.Trials {
		written := tr.Id == i && (i > 0 || tr.Duration != 0 || len(tr.Generations) > 0)
		if in.Prealloc > 0 || in.Reuse {
			written = tr.Id == i // entries were marked with Id -1 beforehand
		}
		if written {
			turns := 0
			if q := env.byT[i]; q != nil {
				q.refresh()
				turns = q.turns
			}
			recorded[i] = [2]int{len(tr.Generations), turns}
		}
	}
	// merge: insert [5,t,n,turns] after the last event of trial t that is not a finish event
	lastIdx := map[int]int{}
	for i, ev := range env.trace {
		if ev[0] != 6 {
			lastIdx[int(ev[1])] = i
		}
	}
	for i, ev := range env.trace {
		trace = append(trace, ev)
		t := int(ev[1])
		if rec, ok := recorded[t]; ok && lastIdx[t] == i && ev[0] != 6 {
			trace = append(trace, []int64{5, int64(t), int64(rec[0]), int64(rec[1])})
			delete(recorded, t)
		}
	}
	// trials recorded without any observable event (zero generations, no observer) come last in order
	for t := 0; t < len(exp.Trials); t++ {
		if rec, ok := recorded[t]; ok {
			trace = append(trace, []int64{5, int64(t), int64(rec[0]), int64(rec[1])})
		}
	}
	return trace, status, err
}

// c20Spec is the Go-side oracle of the statement (independent of the Coq model)
func c20Spec(in c20Input) (trace [][]int64, status int) {
	cancelled := false
	for t, os := range in.Script {
		if in.Obs {
			trace = append(trace, []int64{1, int64(t)})
		}
		n, turns := 0, 0
		for g, o := range os {
			if cancelled {
				return trace, 2
			}
			trace = append(trace, []int64{2, int64(t), int64(g), int64(t), int64(turns)})
			if o == 2 || o == 5 || o == 6 || o == 7 {
				// an evaluator error ends the run at once, whatever else the evaluator did in that call
				return trace, 1
			}
			if o == 3 || o == 4 {
				cancelled = true
			}
			solved := o == 1 || o == 4
			if !solved && cancelled {
				return trace, 2
			}
			if !solved {
				turns++
			}
			n++
			if in.Obs {
				trace = append(trace, []int64{4, int64(t), int64(g)})
			}
			if solved {
				break
			}
		}
		trace = append(trace, []int64{5, int64(t), int64(n), int64(turns)})
		if in.Obs {
			trace = append(trace, []int64{6, int64(t), int64(n)})
		}
	}
	return trace, 0
}

func traceStr(tr [][]int64) string { return fmt.Sprint(tr) }

func c20Term(id int, in c20Input, tr [][]int64, st int) string {
	rows := make([]string, len(in.Script))
	for i, os := range in.Script {
		ms := make([]int, len(os))
		for k, o := range os {
			ms[k] = o
			if o == 7 {
				ms[k] = 2 // the model does not distinguish evaluator errors by what they wrap
			}
		}
		rows[i] = IList(ms)
	}
	evs := make([]string, len(tr))
	for i, e := range tr {
		evs[i] = ZList(e)
	}
	return fmt.Sprintf("{| c20_id := %d; c20_obs := %s; c20_script := %s; c20_go_trace := %s; c20_go_status := %d |}",
		id, B(in.Obs), List(rows), List(evs), st)
}

func c20One(r *Run, cf *CaseFile, id int, in c20Input) {
	tr, st, err := c20Exec(in)
	if cf != nil {
		cf.Add(c20Term(id, in, tr, st))
		r.SaveInput(id, in)
	}
	want, wst := c20Spec(in)
	nontrivial := false
	kinds := map[int]bool{}
	for _, os := range in.Script {
		for _, o := range os {
			kinds[o] = true
		}
	}
	nontrivial = len(kinds) >= 2
	r.Count(traceStr(tr)+fmt.Sprint(in.Obs), nontrivial)
	r.Hist("runs", fmt.Sprint(len(in.Script)))
	r.Hist("status", fmt.Sprint(st))
	if traceStr(tr) != traceStr(want) || st != wst {
		r.Fail(Failure{Key: fmt.Sprintf("execute-trace obs=%v script=%v", in.Obs, in.Script),
			What:  "Experiment.Execute does not follow the trial/generation protocol",
			Input: in, Observed: map[string]interface{}{"trace": tr, "status": st, "err": fmt.Sprint(err)},
			Required: map[string]interface{}{"trace": want, "status": wst}})
	}
	r.Sample(map[string]interface{}{"input": in, "trace": tr, "status": st})
}

func runC20(r *Run) error {
	r.Res.Rule = "scripts of outcomes {unsolved, solved, eval error, cancel, cancel+solved, solved+error, cancel+error} per (trial, generation), with and without observer; " +
		"exhaustive for runs<=R, gens<=G plus random larger scripts; non-trivial = script uses >= 2 outcome kinds; distinct by observed trace"
	maxRuns, maxGens := 2, 2
	if r.Thorough() {
		maxRuns, maxGens = 2, 3
	}
	id := 0
	shard := 0
	cf := r.NewCaseFile(shard, "Res Execute C20Cases", "c20_case")
	perShard := 0
	add := func(in c20Input) {
		if perShard >= 1500 {
			cf.Close("c20_mismatches")
			shard++
			cf = r.NewCaseFile(shard, "Res Execute C20Cases", "c20_case")
			perShard = 0
		}
		c20One(r, cf, id, in)
		id++
		perShard++
	}
	for _, obs := range []bool{true, false} {
		for runs := 0; runs <= maxRuns; runs++ {
			for gens := 0; gens <= maxGens; gens++ {
				if runs == 0 && gens > 0 {
					continue
				}
				base := 5
				if runs*gens <= 3 {
					base = 8 // small scripts also over "solved and error", "cancel and error", "error wrapping a context error"
				}
				total := 1
				for i := 0; i < runs*gens; i++ {
					total *= base
				}
				for code := 0; code < total; code++ {
					script := make([][]int, runs)
					c := code
					for t := range script {
						script[t] = make([]int, gens)
						for g := range script[t] {
							script[t][g] = c % base
							c /= base
						}
					}
					add(c20Input{Obs: obs, Script: script})
				}
			}
		}
	}
	r.Res.Exhaustive = false
	// random larger scripts, mostly unsolved so that long trials occur
	for i := 0; i < r.N(300, 6000); i++ {
		runs := 1 + r.Rng.Intn(5)
		gens := r.Rng.Intn(7)
		script := make([][]int, runs)
		for t := range script {
			script[t] = make([]int, gens)
			for g := range script[t] {
				if r.Rng.Float64() < 0.25 {
					script[t][g] = 1 + r.Rng.Intn(7)
					if r.Rng.Float64() < 0.5 {
						script[t][g] = 1
					}
				}
			}
		}
		inp := c20Input{Obs: r.Rng.Intn(4) != 0, Script: script}
		if c20EveryTrialDecides(script) && r.Rng.Intn(2) == 0 {
			inp.Huge = 1 + r.Rng.Intn(3)
		}
		if runs > 0 && gens > 0 && r.Rng.Intn(4) == 0 {
			inp.Nested = 1 + r.Rng.Intn(4)
		}
		add(inp)
	}
	// pre-allocated and reused Experiment values: still exactly the configured number of trials
	for i := 0; i < r.N(120, 2000); i++ {
		runs := 1 + r.Rng.Intn(3)
		gens := 1 + r.Rng.Intn(3)
		script := make([][]int, runs)
		for t := range script {
			script[t] = make([]int, gens)
			for g := range script[t] {
				if r.Rng.Float64() < 0.3 {
					script[t][g] = 1 + r.Rng.Intn(7)
				}
			}
		}
		in := c20Input{Obs: r.Rng.Intn(2) == 0, Script: script}
		switch i % 4 {
		case 0:
			in.Prealloc = 1 + r.Rng.Intn(3)
		case 1:
			in.Reuse = true
		case 2:
			in.Short = 1 + r.Rng.Intn(3) // a non-nil Trials slice that is too short (possibly empty)
		default:
			in.NoChamp = true // solved generations are reported without a champion
		}
		add(in)
	}
	cf.Close("c20_mismatches")
	return nil
}

func replayC20(r *Run, input []byte) error {
	var in c20Input
	if err := json.Unmarshal(input, &in); err != nil {
		return err
	}
	c20One(r, nil, 0, in)
	return nil
}
