package main

import (
	"os"
	"strings"

	"github.com/yaricom/goNEAT/v4/neat"
	"github.com/yaricom/goNEAT/v4/neat/genetics"
	neatmath "github.com/yaricom/goNEAT/v4/neat/math"
)

// baseOptions mirrors data/xor_test.neat.yml, built in code so that no data file is needed
func baseOptions() *neat.Options {
	return &neat.Options{
		TraitParamMutProb: 0.5, TraitMutationPower: 1.0, WeightMutPower: 2.5,
		DisjointCoeff: 1.0, ExcessCoeff: 1.0, MutdiffCoeff: 0.4,
		CompatThreshold: 3.0, AgeSignificance: 1.0, SurvivalThresh: 0.2,
		MutateOnlyProb: 0.25, MutateRandomTraitProb: 0.1, MutateLinkTraitProb: 0.1, MutateNodeTraitProb: 0.1,
		MutateLinkWeightsProb: 0.9, MutateToggleEnableProb: 0.0, MutateGeneReenableProb: 0.0,
		MutateAddNodeProb: 0.03, MutateAddLinkProb: 0.08, MutateConnectSensors: 0.5,
		InterspeciesMateRate: 0.001, MateMultipointProb: 0.3, MateMultipointAvgProb: 0.3, MateSinglepointProb: 0.3,
		MateOnlyProb: 0.2, RecurOnlyProb: 0.0,
		PopSize: 20, DropOffAge: 50, NewLinkTries: 50, PrintEvery: 1000, BabiesStolen: 0,
		NumRuns: 1, NumGenerations: 1,
		EpochExecutorType: neat.EpochExecutorTypeSequential, GenCompatMethod: neat.GenomeCompatibilityMethodFast,
		NodeActivators:     []neatmath.NodeActivationType{neatmath.SigmoidSteepenedActivation},
		NodeActivatorsProb: []float64{1.0},
		LogLevel:           "error",
	}
}

const tinyGenome = "genomestart 1\n" +
	"trait 1 0.1 0 0 0 0 0 0 0\n" +
	"node 1 1 1 1 NullActivation\n" +
	"node 2 1 1 3 NullActivation\n" +
	"node 3 1 0 2 LinearActivation\n" +
	"gene 1 1 3 1.5 false 1 0 true\n" +
	"gene 1 2 3 2.5 false 2 0 true\n" +
	"genomeend 1\n"

// plainReadFailure is raised when the plain reader does not return the genome a text describes; the
// runner's panic handler turns it into a recorded failing input
type plainReadFailure struct {
	Text string
	What string
}

func checkPlainRead(src string, id int) (*genetics.Genome, *plainReadFailure) {
	g, err := genetics.ReadGenome(strings.NewReader(src), id)
	if err != nil {
		return nil, &plainReadFailure{src, "plain reader failed: " + err.Error()}
	}
	nGenes, nNodes := 0, 0
	for _, line := range strings.Split(src, "\n") {
		if strings.HasPrefix(line, "gene ") {
			nGenes++
		}
		if strings.HasPrefix(line, "node ") {
			nNodes++
		}
	}
	if len(g.Genes) != nGenes || len(g.Nodes) != nNodes {
		return nil, &plainReadFailure{src, "plain reader returned a different number of genes or nodes than the text lists"}
	}
	for _, x := range g.Genes {
		if x.Link == nil || x.Link.InNode == nil || x.Link.OutNode == nil {
			return nil, &plainReadFailure{src, "plain reader returned a gene without one of its endpoint nodes"}
		}
	}
	return g, nil
}

func readPlain(src string, id int) *genetics.Genome {
	g, f := checkPlainRead(src, id)
	if f != nil {
		panic(f)
	}
	return g
}

func quiet() { neat.LogLevel = neat.LogLevelError }

// repoRoot is /repo unless a development override is set (see check)
func repoRoot() string {
	if v := os.Getenv("VERIF_REPO"); v != "" {
		return v
	}
	return "/repo"
}
