package main

// Compatibility-distance translator for C07 / C08 (`neatverif translate compatbodies -out <dir>` writes
// <dir>/CompatBodies.v).
//
// Parses neat/genetics/genome_compatibility.go, finds the methods (*Genome).compatLinear and (*Genome).compatFast
// and translates their BODIES, construct by construct, into Gallina over two gene lists
// `list (Z * float)` = (InnovationNum, MutationNum) in the order of Genome.Genes -- the only thing the two functions
// may read from a genome (anything else is an error) -- and the three coefficients DisjointCoeff, ExcessCoeff,
// MutdiffCoeff of the options (the only fields of the options they may read):
//
//	Definition gen_compat_linear (c_DisjointCoeff c_ExcessCoeff c_MutdiffCoeff : float) (genes_g genes_og : list (Z * float)) : res float
//	Definition gen_compat_fast   ... likewise
//
// Everything runs in the `res` monad of base/Res.v:
//   - `x.Genes[i]` is model/GoSlice.go_index: `GoPanic panic_index_out_of_range` unless 0 <= i < len (never a default);
//   - a *Gene variable is an `option (Z * float)` (nil = None), a field access through it is go_deref
//     (`GoPanic panic_nil_deref` on nil);
//   - an index loop (`for init; cond; post {...}` with any part missing, `break`, `continue`) becomes a top-level
//     Fixpoint on a fuel argument over the tuple of ALL enclosing variables the loop assigns; running out of fuel is the
//     visible result `OutOfFuel`.  The fuel handed to every loop is `S (length genes_g + length genes_og)`: the
//     translator does not argue termination, proofs/CompatBodiesAgree.v proves that this fuel suffices (and that no
//     index is out of range and no nil pointer is dereferenced) by proving the generated function equal to the model.
//
// Subset (everything else: error with the source position, non-zero exit):
//   - locals of type int / int64 (Z; no wrap-around, as in the model), float64, *Gene: `a, b := e1, e2`, `a, b = e1, e2`
//     (right-hand sides may not mention the assigned names), `var a, b T`, `+= -= *=`, `/=` on float64, `++`/`--`;
//   - int expressions: integer constants, + - *, len(x.Genes), p.InnovationNum; float64 expressions: constants
//     (evaluated exactly, rounded once), unary minus, + - * /, math.Abs, float64(<int>), p.MutationNum,
//     opts.DisjointCoeff/ExcessCoeff/MutdiffCoeff; p is a *Gene variable or x.Genes[i];
//   - conditions: < <= > >= == != between ints or between float64s, && || ! (an operand of && || may not index or
//     dereference: the panic order would depend on short-circuiting);
//   - statements: the above, blocks, if / else if / else without init, `return e` outside loops, one level of `for`.

import (
	"bufio"
	"fmt"
	"go/ast"
	"go/constant"
	"go/parser"
	"go/token"
	"math"
	"os"
	"path/filepath"
	"sort"
	"strconv"
	"strings"
)

func init() { translators["compatbodies"] = c07TranslateCompatBodies }

type c07Kind int

const (
	c07Float c07Kind = iota
	c07Int
	c07Ptr // *Gene
	c07Const
	c07Bool
)

func (k c07Kind) String() string {
	return [...]string{"float64", "int", "*Gene", "untyped constant", "bool"}[k]
}

func (k c07Kind) coqType() string {
	return [...]string{"float", "Z", "option (Z * float)", "?", "bool"}[k]
}

type c07Val struct {
	kind    c07Kind
	code    string
	cv      constant.Value
	isFloat bool
	src     string
	some    string // for c07Ptr values known to be `Some <some>`: the gene term itself
}

type c07Var struct {
	kind  c07Kind
	depth int
	seq   int
}

type c07Loop struct {
	tuple string        // the state tuple, as a term over the current variable names
	again func() string // post statement and the recursive call
}

type c07Env struct {
	vars  map[string]c07Var
	depth int
	loop  *c07Loop
}

func (e c07Env) with(name string, v c07Var) c07Env {
	m := make(map[string]c07Var, len(e.vars)+1)
	for k, x := range e.vars {
		m[k] = x
	}
	m[name] = v
	r := e
	r.vars = m
	return r
}
func (e c07Env) push() c07Env { r := e; r.depth++; return r }
func (e c07Env) popTo(outer c07Env) c07Env {
	m := make(map[string]c07Var, len(e.vars))
	for k, x := range e.vars {
		if x.depth <= outer.depth {
			m[k] = x
		}
	}
	r := outer
	r.vars = m
	return r
}

type c07Error struct{ msg string }

type c07Tr struct {
	fset     *token.FileSet
	src      []byte
	fn       string            // Go method name
	coqName  string            // gen_compat_linear / gen_compat_fast
	genomes  map[string]string // Go name of a *Genome (receiver, parameter) -> Coq gene list
	list1    string            // gene list of the receiver
	list2    string            // gene list of the other genome
	opts     string            // Go name of the *neat.Options parameter
	reserved map[string]bool
	pending  []string // monadic binds of the statement being translated
	ntemp    int
	nseq     int
	aux      []string          // top-level Fixpoints (loops), in order
	loops    map[token.Pos]int // loop statement -> index in aux
	nloops   int
	header   string // the fixed parameters of the function, as binders
	headArgs string // ... and as arguments
}

var c07CoeffFields = map[string]bool{"DisjointCoeff": true, "ExcessCoeff": true, "MutdiffCoeff": true}

const c07GeneType = "(Z * float)"

func (t *c07Tr) fail(n ast.Node, format string, a ...interface{}) {
	pos := "?"
	if n != nil {
		pos = t.fset.Position(n.Pos()).String()
	}
	panic(c07Error{fmt.Sprintf("%s: in %s: %s", pos, t.fn, fmt.Sprintf(format, a...))})
}

func (t *c07Tr) text(n ast.Node) string {
	a, b := t.fset.Position(n.Pos()).Offset, t.fset.Position(n.End()).Offset
	if a < 0 || b > len(t.src) || a > b {
		return ""
	}
	return string(t.src[a:b])
}

func (t *c07Tr) coqVar(id *ast.Ident) string {
	if !c18bIdentRe.MatchString(id.Name) {
		t.fail(id, "identifier %q is not plain ASCII", id.Name)
	}
	return "v_" + id.Name
}

func (t *c07Tr) temp() string { t.ntemp++; return fmt.Sprintf("p_%d", t.ntemp) }

func (t *c07Tr) takeBinds() string {
	s := strings.Join(t.pending, "")
	t.pending = nil
	return s
}

func (t *c07Tr) constFloat(n ast.Node, v c07Val) float64 {
	f, _ := constant.Float64Val(constant.ToFloat(v.cv))
	if math.IsInf(f, 0) || math.IsNaN(f) {
		t.fail(n, "constant %s overflows float64", v.src)
	}
	if f == 0 {
		f = 0 // Go constants have no negative zero
	}
	return f
}

func (t *c07Tr) constInt(n ast.Node, v c07Val) string {
	iv := constant.ToInt(v.cv)
	if iv.Kind() != constant.Int {
		t.fail(n, "constant %s is not an integer", v.src)
	}
	i, ok := constant.Int64Val(iv)
	if !ok {
		t.fail(n, "integer constant %s does not fit int", v.src)
	}
	return fmt.Sprintf("(%d)%%Z", i)
}

func (t *c07Tr) asFloat(n ast.Node, v c07Val) string {
	switch v.kind {
	case c07Float:
		return v.code
	case c07Const:
		return c18bFloatLit(t.constFloat(n, v), v.src)
	}
	t.fail(n, "expression %q has type %s where a float64 is needed", t.text(n), v.kind)
	return ""
}

func (t *c07Tr) asInt(n ast.Node, v c07Val) string {
	switch v.kind {
	case c07Int:
		return v.code
	case c07Const:
		return t.constInt(n, v)
	}
	t.fail(n, "expression %q has type %s where an integer is needed", t.text(n), v.kind)
	return ""
}

func (t *c07Tr) asBool(n ast.Node, v c07Val) string {
	if v.kind != c07Bool {
		t.fail(n, "expression %q is not a condition built from comparisons", t.text(n))
	}
	return v.code
}

// geneOf: the gene a *Gene expression points to (a bind that panics on nil unless the pointer is known to be Some)
func (t *c07Tr) geneOf(n ast.Node, v c07Val) string {
	if v.kind != c07Ptr {
		t.fail(n, "field access through %q, which is not a *Gene", t.text(n))
	}
	if v.some != "" {
		return v.some
	}
	p := t.temp()
	t.pending = append(t.pending, "do "+p+" <- go_deref "+v.code+";\n")
	return p
}

func (t *c07Tr) expr(e ast.Expr, env c07Env) c07Val {
	switch x := e.(type) {
	case *ast.ParenExpr:
		return t.expr(x.X, env)
	case *ast.BasicLit:
		if x.Kind == token.INT || x.Kind == token.FLOAT {
			cv := constant.MakeFromLiteral(x.Value, x.Kind, 0)
			if cv.Kind() == constant.Unknown {
				t.fail(x, "cannot read numeric literal %s", x.Value)
			}
			return c07Val{kind: c07Const, cv: cv, isFloat: x.Kind == token.FLOAT, src: x.Value}
		}
		t.fail(x, "unsupported literal %s", x.Value)
	case *ast.Ident:
		if v, ok := env.vars[x.Name]; ok {
			return c07Val{kind: v.kind, code: t.coqVar(x)}
		}
		if _, ok := t.genomes[x.Name]; ok {
			t.fail(x, "the genome %q is used other than as %s.Genes[i] / len(%s.Genes); the model abstracts a genome to its gene list", x.Name, x.Name, x.Name)
		}
		if x.Name == t.opts && x.Name != "" {
			t.fail(x, "the options %q are used other than as %s.DisjointCoeff / ExcessCoeff / MutdiffCoeff", x.Name, x.Name)
		}
		if x.Name == "nil" {
			t.fail(x, "nil is not supported in expressions")
		}
		t.fail(x, "unsupported identifier %q (not a local variable of %s)", x.Name, t.fn)
	case *ast.SelectorExpr:
		if id, ok := x.X.(*ast.Ident); ok {
			if id.Name == t.opts && id.Name != "" {
				if c07CoeffFields[x.Sel.Name] {
					return c07Val{kind: c07Float, code: "c_" + x.Sel.Name}
				}
				t.fail(x, "reads %s; the model's distance depends on DisjointCoeff, ExcessCoeff and MutdiffCoeff only", t.text(x))
			}
			if _, ok := t.genomes[id.Name]; ok {
				t.fail(x, "reads %s; only %s.Genes[i] and len(%s.Genes) are supported (the model abstracts a genome to its gene list)", t.text(x), id.Name, id.Name)
			}
		}
		p := t.expr(x.X, env)
		if p.kind != c07Ptr {
			t.fail(x, "unsupported selector %q", t.text(x))
		}
		switch x.Sel.Name {
		case "InnovationNum":
			return c07Val{kind: c07Int, code: "(fst " + t.geneOf(x.X, p) + ")"}
		case "MutationNum":
			return c07Val{kind: c07Float, code: "(snd " + t.geneOf(x.X, p) + ")"}
		}
		t.fail(x, "reads %s of a gene; the model's genes carry InnovationNum and MutationNum only", t.text(x))
	case *ast.IndexExpr:
		sel, ok := x.X.(*ast.SelectorExpr)
		if ok {
			if id, ok := sel.X.(*ast.Ident); ok && sel.Sel.Name == "Genes" {
				if list, ok := t.genomes[id.Name]; ok {
					i := t.asInt(x.Index, t.expr(x.Index, env))
					p := t.temp()
					t.pending = append(t.pending, "do "+p+" <- go_index "+list+" "+i+";\n")
					return c07Val{kind: c07Ptr, code: "(Some " + p + ")", some: p}
				}
			}
		}
		t.fail(x, "unsupported index expression %q (only <genome>.Genes[<int>])", t.text(x))
	case *ast.UnaryExpr:
		v := t.expr(x.X, env)
		switch x.Op {
		case token.SUB, token.ADD:
			switch v.kind {
			case c07Const:
				return c07Val{kind: c07Const, cv: constant.UnaryOp(x.Op, v.cv, 0), isFloat: v.isFloat, src: t.text(x)}
			case c07Float:
				if x.Op == token.ADD {
					return v
				}
				return c07Val{kind: c07Float, code: "(- " + v.code + ")"}
			case c07Int:
				if x.Op == token.ADD {
					return v
				}
				return c07Val{kind: c07Int, code: "(Z.opp " + v.code + ")"}
			}
			t.fail(x, "unary %s on %s", x.Op, v.kind)
		case token.NOT:
			return c07Val{kind: c07Bool, code: "(negb " + t.asBool(x.X, v) + ")"}
		}
		t.fail(x, "unsupported unary operator %s", x.Op)
	case *ast.BinaryExpr:
		return t.binary(x, env)
	case *ast.CallExpr:
		return t.call(x, env)
	}
	t.fail(e, "unsupported expression %q (%T)", t.text(e), e)
	return c07Val{}
}

func (t *c07Tr) binary(x *ast.BinaryExpr, env c07Env) c07Val {
	a := t.expr(x.X, env)
	nb := len(t.pending)
	b := t.expr(x.Y, env)
	isArith := x.Op == token.ADD || x.Op == token.SUB || x.Op == token.MUL || x.Op == token.QUO
	isCmp := x.Op == token.LSS || x.Op == token.LEQ || x.Op == token.GTR || x.Op == token.GEQ || x.Op == token.EQL || x.Op == token.NEQ
	switch {
	case x.Op == token.LAND || x.Op == token.LOR:
		if len(t.pending) != nb {
			t.fail(x.Y, "the right operand of %s indexes a slice or dereferences a pointer; its panic would depend on short-circuit evaluation; not supported", x.Op)
		}
		f := "andb"
		if x.Op == token.LOR {
			f = "orb"
		}
		return c07Val{kind: c07Bool, code: "(" + f + " " + t.asBool(x.X, a) + " " + t.asBool(x.Y, b) + ")"}
	case !isArith && !isCmp:
		t.fail(x, "unsupported binary operator %s", x.Op)
	case a.kind == c07Bool || b.kind == c07Bool || a.kind == c07Ptr || b.kind == c07Ptr:
		t.fail(x, "operator %s applied to %s and %s", x.Op, a.kind, b.kind)
	case a.kind == c07Const && b.kind == c07Const:
		if isCmp {
			t.fail(x, "comparison of two constants %q is not supported", t.text(x))
		}
		isFloat := a.isFloat || b.isFloat
		op, av, bv := x.Op, a.cv, b.cv
		if isFloat {
			av, bv = constant.ToFloat(av), constant.ToFloat(bv)
		} else if op == token.QUO {
			op = token.QUO_ASSIGN
		}
		if x.Op == token.QUO && constant.Sign(bv) == 0 {
			t.fail(x, "constant division by zero")
		}
		return c07Val{kind: c07Const, cv: constant.BinaryOp(av, op, bv), isFloat: isFloat, src: t.text(x)}
	}
	k := a.kind
	if k == c07Const {
		k = b.kind
	}
	if (a.kind != c07Const && a.kind != k) || (b.kind != c07Const && b.kind != k) {
		t.fail(x, "operands of %s have types %s and %s", x.Op, a.kind, b.kind)
	}
	if k == c07Float {
		l, r := t.asFloat(x.X, a), t.asFloat(x.Y, b)
		switch x.Op {
		case token.ADD:
			return c07Val{kind: c07Float, code: "(" + l + " + " + r + ")"}
		case token.SUB:
			return c07Val{kind: c07Float, code: "(" + l + " - " + r + ")"}
		case token.MUL:
			return c07Val{kind: c07Float, code: "(" + l + " * " + r + ")"}
		case token.QUO:
			return c07Val{kind: c07Float, code: "(" + l + " / " + r + ")"}
		case token.LSS: // a > b is b < a: the same IEEE predicate (false on NaN either way)
			return c07Val{kind: c07Bool, code: "(" + l + " <? " + r + ")"}
		case token.LEQ:
			return c07Val{kind: c07Bool, code: "(" + l + " <=? " + r + ")"}
		case token.GTR:
			return c07Val{kind: c07Bool, code: "(" + r + " <? " + l + ")"}
		case token.GEQ:
			return c07Val{kind: c07Bool, code: "(" + r + " <=? " + l + ")"}
		case token.EQL:
			return c07Val{kind: c07Bool, code: "(" + l + " =? " + r + ")"}
		case token.NEQ:
			return c07Val{kind: c07Bool, code: "(negb (" + l + " =? " + r + "))"}
		}
	}
	l, r := t.asInt(x.X, a), t.asInt(x.Y, b)
	switch x.Op {
	case token.ADD:
		return c07Val{kind: c07Int, code: "(Z.add " + l + " " + r + ")"}
	case token.SUB:
		return c07Val{kind: c07Int, code: "(Z.sub " + l + " " + r + ")"}
	case token.MUL:
		return c07Val{kind: c07Int, code: "(Z.mul " + l + " " + r + ")"}
	case token.QUO:
		t.fail(x, "integer division is not supported")
	case token.LSS:
		return c07Val{kind: c07Bool, code: "(Z.ltb " + l + " " + r + ")"}
	case token.LEQ:
		return c07Val{kind: c07Bool, code: "(Z.leb " + l + " " + r + ")"}
	case token.GTR:
		return c07Val{kind: c07Bool, code: "(Z.ltb " + r + " " + l + ")"}
	case token.GEQ:
		return c07Val{kind: c07Bool, code: "(Z.leb " + r + " " + l + ")"}
	case token.EQL:
		return c07Val{kind: c07Bool, code: "(Z.eqb " + l + " " + r + ")"}
	case token.NEQ:
		return c07Val{kind: c07Bool, code: "(negb (Z.eqb " + l + " " + r + "))"}
	}
	t.fail(x, "unsupported binary operator %s", x.Op)
	return c07Val{}
}

func (t *c07Tr) call(x *ast.CallExpr, env c07Env) c07Val {
	if x.Ellipsis != token.NoPos {
		t.fail(x, "variadic call")
	}
	if id, ok := x.Fun.(*ast.Ident); ok {
		if len(x.Args) != 1 {
			t.fail(x, "%s with %d arguments", id.Name, len(x.Args))
		}
		switch id.Name {
		case "len":
			if sel, ok := x.Args[0].(*ast.SelectorExpr); ok && sel.Sel.Name == "Genes" {
				if g, ok := sel.X.(*ast.Ident); ok {
					if list, ok := t.genomes[g.Name]; ok {
						return c07Val{kind: c07Int, code: "(go_len " + list + ")"}
					}
				}
			}
			t.fail(x, "len of %q (only len(<genome>.Genes))", t.text(x.Args[0]))
		case "float64":
			v := t.expr(x.Args[0], env)
			switch v.kind {
			case c07Float:
				return v
			case c07Const:
				return c07Val{kind: c07Float, code: t.asFloat(x.Args[0], v)}
			case c07Int: // int -> float64: round to nearest even (F64.f_of_Z, exact below 2^53)
				return c07Val{kind: c07Float, code: "(f_of_Z " + v.code + ")"}
			}
		case "int", "int64":
			v := t.expr(x.Args[0], env)
			switch v.kind {
			case c07Int:
				return v
			case c07Const:
				return c07Val{kind: c07Int, code: t.constInt(x.Args[0], v)}
			}
			t.fail(x, "conversion of a float64 to an integer is not supported here")
		}
		t.fail(x, "unsupported call %q (only len(x.Genes), float64(..), int(..), math.Abs(..))", t.text(x))
	}
	if sel, ok := x.Fun.(*ast.SelectorExpr); ok {
		if p, ok := sel.X.(*ast.Ident); ok && p.Name == "math" {
			if sel.Sel.Name == "Abs" && len(x.Args) == 1 {
				return c07Val{kind: c07Float, code: "(abs " + t.asFloat(x.Args[0], t.expr(x.Args[0], env)) + ")"}
			}
			t.fail(x, "math.%s has no counterpart in the model of the compatibility distance (only math.Abs)", sel.Sel.Name)
		}
	}
	t.fail(x, "unsupported call %q (only len(x.Genes), float64(..), int(..), math.Abs(..))", t.text(x))
	return c07Val{}
}

func (t *c07Tr) declare(id *ast.Ident, kind c07Kind, env c07Env) c07Env {
	if t.reserved[id.Name] || id.Name == t.opts {
		t.fail(id, "declaration of %q hides a name the translator gives a fixed meaning", id.Name)
	}
	if _, ok := t.genomes[id.Name]; ok {
		t.fail(id, "declaration of %q hides a genome", id.Name)
	}
	if _, ok := env.vars[id.Name]; ok {
		t.fail(id, "declaration of %q shadows (or repeats) a variable of an enclosing scope; not supported", id.Name)
	}
	t.nseq++
	return env.with(id.Name, c07Var{kind: kind, depth: env.depth, seq: t.nseq})
}

func (t *c07Tr) typeKind(e ast.Expr) c07Kind {
	switch {
	case c18bIsIdent(e, "float64"):
		return c07Float
	case c18bIsIdent(e, "int"), c18bIsIdent(e, "int64"):
		return c07Int
	}
	if st, ok := e.(*ast.StarExpr); ok && c18bIsIdent(st.X, "Gene") {
		return c07Ptr
	}
	t.fail(e, "local variable of type %q (only float64, int, int64, *Gene)", t.text(e))
	return 0
}

func (t *c07Tr) zero(kind c07Kind) string {
	switch kind {
	case c07Float:
		return c18bFloatLit(0, "")
	case c07Int:
		return "(0)%Z"
	}
	return "(None : option " + c07GeneType + ")" // nil
}

func (t *c07Tr) coerce(n ast.Node, v c07Val, kind c07Kind) string {
	switch kind {
	case c07Float:
		return t.asFloat(n, v)
	case c07Int:
		return t.asInt(n, v)
	}
	if v.kind != c07Ptr {
		t.fail(n, "expression %q has type %s where a *Gene is needed", t.text(n), v.kind)
	}
	return v.code
}

// c07HasJump: a return, break or continue anywhere inside
func c07HasJump(n ast.Node) bool {
	found := false
	ast.Inspect(n, func(n ast.Node) bool {
		switch n.(type) {
		case *ast.ReturnStmt, *ast.BranchStmt:
			found = true
		}
		return !found
	})
	return found
}

func c07Paren(s string) string {
	if strings.HasPrefix(s, "let ") || strings.HasPrefix(s, "if ") || strings.HasPrefix(s, "do ") {
		return "(" + s + ")"
	}
	return s
}

func (t *c07Tr) stmts(list []ast.Stmt, env c07Env, k func(c07Env) string) string {
	if len(list) == 0 {
		return k(env)
	}
	rest := func(e c07Env) string { return t.stmts(list[1:], e, k) }
	switch s := list[0].(type) {
	case *ast.EmptyStmt:
		return rest(env)
	case *ast.ReturnStmt:
		if env.loop != nil {
			t.fail(s, "return inside a loop is not supported")
		}
		if len(s.Results) != 1 {
			t.fail(s, "return with %d results", len(s.Results))
		}
		if len(list) > 1 {
			t.fail(list[1], "statement after return")
		}
		v := t.asFloat(s.Results[0], t.expr(s.Results[0], env))
		return t.takeBinds() + "Ok " + v
	case *ast.BranchStmt:
		if s.Label != nil {
			t.fail(s, "labelled %s is not supported", s.Tok)
		}
		if env.loop == nil {
			t.fail(s, "%s outside a loop", s.Tok)
		}
		if len(list) > 1 {
			t.fail(list[1], "statement after %s", s.Tok)
		}
		switch s.Tok {
		case token.BREAK:
			return "Ok " + env.loop.tuple
		case token.CONTINUE:
			return env.loop.again()
		}
		t.fail(s, "unsupported statement %s", s.Tok)
	case *ast.BlockStmt:
		return t.stmts(s.List, env.push(), func(inner c07Env) string { return rest(inner.popTo(env)) })
	case *ast.IfStmt:
		if s.Init != nil {
			t.fail(s.Init, "if with an init statement is not supported")
		}
		c := t.asBool(s.Cond, t.expr(s.Cond, env))
		pre := t.takeBinds()
		after := func(inner c07Env) string { return rest(inner.popTo(env)) }
		join := ""
		if len(list) > 1 && !c07HasJump(s) {
			// every branch falls through to the statements after the if: translate the if once, as a computation of
			// the variables it assigns, instead of copying the rest of the block into every branch
			vars := t.assignedIn(env, s)
			tuple, pat := "tt", "_"
			if len(vars) == 1 {
				tuple, pat = "v_"+vars[0], "v_"+vars[0]
			} else if len(vars) > 1 {
				for i := range vars {
					vars[i] = "v_" + vars[i]
				}
				tuple = "(" + strings.Join(vars, ", ") + ")"
				pat = "'" + tuple
			}
			after = func(c07Env) string { return "Ok " + tuple }
			join = "let " + pat + " := jp in\n"
		}
		thenT := c07Paren(t.stmts(s.Body.List, env.push(), after))
		var elseT string
		switch el := s.Else.(type) {
		case nil:
			elseT = after(env)
		case *ast.BlockStmt:
			elseT = t.stmts(el.List, env.push(), after)
		case *ast.IfStmt:
			elseT = t.stmts([]ast.Stmt{el}, env, after)
		default:
			t.fail(s.Else, "unsupported else branch")
		}
		var ifT string
		if strings.HasPrefix(elseT, "if ") {
			ifT = "if " + c + " then\n" + c18bIndent(thenT) + "\nelse " + elseT
		} else {
			ifT = "if " + c + " then\n" + c18bIndent(thenT) + "\nelse\n" + c18bIndent(c07Paren(elseT))
		}
		if join != "" {
			return pre + "do jp <-\n" + c18bIndent("("+ifT+")") + ";\n" + join + rest(env)
		}
		return pre + ifT
	case *ast.DeclStmt:
		gd, ok := s.Decl.(*ast.GenDecl)
		if !ok || gd.Tok != token.VAR {
			t.fail(s, "unsupported declaration (only `var x T [= e]`)")
		}
		out := ""
		cur := env
		for _, sp := range gd.Specs {
			vs := sp.(*ast.ValueSpec)
			if vs.Type == nil {
				t.fail(vs, "var without a type is not supported")
			}
			kind := t.typeKind(vs.Type)
			if len(vs.Values) != 0 && len(vs.Values) != len(vs.Names) {
				t.fail(vs, "var with %d names and %d values", len(vs.Names), len(vs.Values))
			}
			vals := make([]string, len(vs.Names))
			for i := range vs.Names {
				if len(vs.Values) == 0 {
					vals[i] = t.zero(kind)
					continue
				}
				vals[i] = t.coerce(vs.Values[i], t.expr(vs.Values[i], env), kind)
			}
			out += t.takeBinds()
			for i, n := range vs.Names {
				if n.Name == "_" {
					continue
				}
				cur = t.declare(n, kind, cur)
				out += "let " + t.coqVar(n) + " := " + vals[i] + " in\n"
			}
		}
		return out + rest(cur)
	case *ast.IncDecStmt, *ast.AssignStmt:
		out, cur := t.simple(s, env)
		return out + rest(cur)
	case *ast.ForStmt:
		return t.forLoop(s, env, rest)
	}
	t.fail(list[0], "unsupported statement %T (supported: var, :=, =, op=, ++/--, if/else, block, for, break, continue, return)", list[0])
	return ""
}

// simple translates an assignment / inc-dec statement to a sequence of binds and lets
func (t *c07Tr) simple(st ast.Stmt, env c07Env) (string, c07Env) {
	switch s := st.(type) {
	case *ast.IncDecStmt:
		id, ok := s.X.(*ast.Ident)
		if !ok {
			t.fail(s, "unsupported operand of %s", s.Tok)
		}
		v := t.expr(id, env)
		var val string
		switch {
		case v.kind == c07Float && s.Tok == token.INC:
			val = "(" + v.code + " + " + c18bFloatLit(1, "1") + ")"
		case v.kind == c07Float:
			val = "(" + v.code + " - " + c18bFloatLit(1, "1") + ")"
		case v.kind == c07Int && s.Tok == token.INC:
			val = "(Z.add " + v.code + " (1)%Z)"
		case v.kind == c07Int:
			val = "(Z.sub " + v.code + " (1)%Z)"
		default:
			t.fail(s, "%s of a %s", s.Tok, v.kind)
		}
		return "let " + v.code + " := " + val + " in\n", env
	case *ast.AssignStmt:
		return t.assign(s, env)
	}
	t.fail(st, "unsupported statement %T here", st)
	return "", env
}

func (t *c07Tr) assign(s *ast.AssignStmt, env c07Env) (string, c07Env) {
	if len(s.Lhs) != len(s.Rhs) {
		t.fail(s, "assignment with %d targets and %d values", len(s.Lhs), len(s.Rhs))
	}
	ids := make([]*ast.Ident, len(s.Lhs))
	lhs := map[string]bool{}
	for i, l := range s.Lhs {
		id, ok := l.(*ast.Ident)
		if !ok {
			t.fail(l, "assignment to %q: only plain local variables can be assigned (no fields, no indexing)", t.text(l))
		}
		ids[i] = id
		if id.Name != "_" {
			if lhs[id.Name] {
				t.fail(id, "%q assigned twice in one statement", id.Name)
			}
			lhs[id.Name] = true
		}
	}
	vals := make([]string, len(ids))
	kinds := make([]c07Kind, len(ids))
	switch s.Tok {
	case token.DEFINE, token.ASSIGN:
		for i, r := range s.Rhs {
			if len(ids) > 1 && c18bMentions(r, lhs) {
				t.fail(r, "right-hand side of a parallel assignment mentions a variable assigned by it; not supported")
			}
			rv := t.expr(r, env)
			old, exists := env.vars[ids[i].Name]
			if s.Tok == token.DEFINE && !(exists && old.depth == env.depth) {
				switch rv.kind {
				case c07Float, c07Int, c07Ptr:
					kinds[i] = rv.kind
				case c07Const:
					kinds[i] = c07Int
					if rv.isFloat {
						kinds[i] = c07Float
					}
				default:
					t.fail(r, "local variable of type bool is not supported")
				}
			} else {
				if !exists && ids[i].Name != "_" {
					t.fail(ids[i], "assignment to undeclared variable %q", ids[i].Name)
				}
				kinds[i] = old.kind
			}
			if ids[i].Name == "_" {
				continue
			}
			vals[i] = t.coerce(r, rv, kinds[i])
		}
	case token.ADD_ASSIGN, token.SUB_ASSIGN, token.MUL_ASSIGN, token.QUO_ASSIGN:
		if len(ids) != 1 {
			t.fail(s, "unsupported assignment operator %s", s.Tok)
		}
		old, exists := env.vars[ids[0].Name]
		if !exists {
			t.fail(ids[0], "assignment to undeclared variable %q", ids[0].Name)
		}
		kinds[0] = old.kind
		v := t.coqVar(ids[0])
		r := t.coerce(s.Rhs[0], t.expr(s.Rhs[0], env), old.kind)
		switch old.kind {
		case c07Float:
			sym := map[token.Token]string{token.ADD_ASSIGN: "+", token.SUB_ASSIGN: "-", token.MUL_ASSIGN: "*", token.QUO_ASSIGN: "/"}[s.Tok]
			vals[0] = "(" + v + " " + sym + " " + r + ")"
		case c07Int:
			fn, ok := map[token.Token]string{token.ADD_ASSIGN: "Z.add", token.SUB_ASSIGN: "Z.sub", token.MUL_ASSIGN: "Z.mul"}[s.Tok]
			if !ok {
				t.fail(s, "integer division is not supported")
			}
			vals[0] = "(" + fn + " " + v + " " + r + ")"
		default:
			t.fail(s, "%s on a %s", s.Tok, old.kind)
		}
	default:
		t.fail(s, "unsupported assignment operator %s", s.Tok)
	}
	out := t.takeBinds()
	cur := env
	fresh := 0
	for i, id := range ids {
		if id.Name == "_" {
			continue
		}
		old, exists := cur.vars[id.Name]
		if s.Tok == token.DEFINE && !(exists && old.depth == cur.depth) {
			cur = t.declare(id, kinds[i], cur) // fails on shadowing
			fresh++
		}
		out += "let " + t.coqVar(id) + " := " + vals[i] + " in\n"
	}
	if s.Tok == token.DEFINE && fresh == 0 {
		t.fail(s, "no new variable on the left side of :=")
	}
	return out, cur
}

// assignedIn collects, in order of first appearance, the variables of env assigned in the given nodes
func (t *c07Tr) assignedIn(env c07Env, nodes ...ast.Node) []string {
	var names []string
	seen := map[string]bool{}
	add := func(e ast.Expr) {
		if id, ok := e.(*ast.Ident); ok {
			if _, ok := env.vars[id.Name]; ok && !seen[id.Name] {
				seen[id.Name] = true
				names = append(names, id.Name)
			}
		}
	}
	for _, n := range nodes {
		if n == nil {
			continue
		}
		ast.Inspect(n, func(n ast.Node) bool {
			switch s := n.(type) {
			case *ast.AssignStmt:
				for _, l := range s.Lhs {
					add(l)
				}
			case *ast.IncDecStmt:
				add(s.X)
			}
			return true
		})
	}
	return names
}

func (t *c07Tr) forLoop(s *ast.ForStmt, env c07Env, rest func(c07Env) string) string {
	if env.loop != nil {
		t.fail(s, "nested loop is not supported")
	}
	out := ""
	scope := env.push() // the scope of the for statement: variables of the init statement
	if s.Init != nil {
		as, ok := s.Init.(*ast.AssignStmt)
		if !ok || as.Tok != token.DEFINE {
			t.fail(s.Init, "unsupported init statement of a for loop (only `a, b := e1, e2`)")
		}
		var o string
		o, scope = t.assign(as, scope)
		out += o
	}
	var initVars []string
	for name, v := range scope.vars {
		if v.depth == scope.depth {
			initVars = append(initVars, name)
		}
	}
	sort.Slice(initVars, func(i, j int) bool { return scope.vars[initVars[i]].seq < scope.vars[initVars[j]].seq })
	// the loop state: the variables of the init statement, then every enclosing variable the body or post statement assigns
	var post ast.Node
	if s.Post != nil {
		post = s.Post
	}
	state := append([]string{}, initVars...)
	inState := map[string]bool{}
	for _, n := range state {
		inState[n] = true
	}
	for _, n := range t.assignedIn(scope, s.Body, post) {
		if !inState[n] {
			inState[n] = true
			state = append(state, n)
		}
	}
	if len(state) == 0 {
		t.fail(s, "loop assigns no variable (it cannot terminate)")
	}
	// every other variable in scope is a parameter of the loop function
	var params []string
	for name := range scope.vars {
		if !inState[name] {
			params = append(params, name)
		}
	}
	sort.Slice(params, func(i, j int) bool { return scope.vars[params[i]].seq < scope.vars[params[j]].seq })
	coq := make([]string, len(state))
	types := make([]string, len(state))
	for i, n := range state {
		coq[i] = "v_" + n
		types[i] = scope.vars[n].kind.coqType()
	}
	tuple, pat, stType := coq[0], coq[0], types[0]
	if len(coq) > 1 {
		tuple = "(" + strings.Join(coq, ", ") + ")"
		pat = "'" + tuple
		stType = strings.Join(types, " * ")
	}
	idx, known := t.loops[s.Pos()]
	name := ""
	if known {
		name = fmt.Sprintf("%s_loop%d", t.coqName, idx+1)
	} else {
		t.nloops++
		name = fmt.Sprintf("%s_loop%d", t.coqName, t.nloops)
	}
	binders, args := "", ""
	for _, p := range params {
		binders += " (v_" + p + " : " + scope.vars[p].kind.coqType() + ")"
		args += " v_" + p
	}
	call := name + " " + t.headArgs + args
	// body
	inner := scope.push()
	var postText string
	inner.loop = &c07Loop{tuple: tuple}
	inner.loop.again = func() string {
		return postText + call + " fuel " + tuple
	}
	if s.Post != nil {
		// the post statement runs in the scope of the for statement after the body and after `continue`
		noLoop := scope
		postText, _ = t.simple(s.Post, noLoop)
	}
	body := t.stmts(s.Body.List, inner.push(), func(c07Env) string { return inner.loop.again() })
	step := body
	if s.Cond != nil {
		c := t.asBool(s.Cond, t.expr(s.Cond, scope))
		pre := t.takeBinds()
		step = pre + "if " + c + " then\n" + c18bIndent(c07Paren(body)) + "\nelse\n  Ok " + tuple
	}
	fix := fmt.Sprintf("(* %s:%d  the for loop of %s; state = the variables it assigns *)\n", filepath.Base(t.fset.Position(s.Pos()).Filename), t.fset.Position(s.Pos()).Line, t.fn)
	fix += "Fixpoint " + name + " " + t.header + binders + "\n    (fuel : nat) (st : " + stType + ") {struct fuel} : res (" + stType + ") :=\n"
	fix += "  match fuel with\n  | O => OutOfFuel\n  | S fuel =>\n"
	fix += "    let " + pat + " := st in\n" + c18bIndent(c18bIndent(step)) + "\n  end.\n"
	if known {
		if t.aux[idx] != fix {
			t.fail(s, "the loop is reached along two paths with different variables in scope; not supported")
		}
	} else {
		t.loops[s.Pos()] = len(t.aux)
		t.aux = append(t.aux, fix)
	}
	fuel := "(S (length " + t.list1 + " + length " + t.list2 + "))"
	out += "do st <- " + call + " " + fuel + " " + tuple + ";\n"
	out += "let " + pat + " := st in\n"
	return out + rest(scope.popTo(env))
}

// c07CheckTypes: Gene.InnovationNum is an int64, Gene.MutationNum a float64, Genome.Genes a []*Gene, and the three
// coefficients are float64 fields of neat.Options
func c07CheckTypes(repo string) error {
	structsOf := func(dir string) (map[string]*ast.StructType, error) {
		fset := token.NewFileSet()
		structs := map[string]*ast.StructType{}
		ents, err := os.ReadDir(dir)
		if err != nil {
			return nil, err
		}
		for _, ent := range ents {
			n := ent.Name()
			if ent.IsDir() || !strings.HasSuffix(n, ".go") || strings.HasSuffix(n, "_test.go") {
				continue
			}
			f, err := parser.ParseFile(fset, filepath.Join(dir, n), nil, 0)
			if err != nil {
				return nil, err
			}
			for _, d := range f.Decls {
				gd, ok := d.(*ast.GenDecl)
				if !ok || gd.Tok != token.TYPE {
					continue
				}
				for _, sp := range gd.Specs {
					ts := sp.(*ast.TypeSpec)
					if st, ok := ts.Type.(*ast.StructType); ok {
						structs[ts.Name.Name] = st
					}
				}
			}
		}
		return structs, nil
	}
	field := func(st *ast.StructType, name string) ast.Expr {
		if st == nil {
			return nil
		}
		for _, f := range st.Fields.List {
			for _, n := range f.Names {
				if n.Name == name {
					return f.Type
				}
			}
		}
		return nil
	}
	gen, err := structsOf(filepath.Join(repo, "neat", "genetics"))
	if err != nil {
		return err
	}
	if ft := field(gen["Gene"], "InnovationNum"); ft == nil || !c18bIsIdent(ft, "int64") {
		return fmt.Errorf("neat/genetics: Gene.InnovationNum is not an int64 field")
	}
	if ft := field(gen["Gene"], "MutationNum"); ft == nil || !c18bIsIdent(ft, "float64") {
		return fmt.Errorf("neat/genetics: Gene.MutationNum is not a float64 field")
	}
	ok := false
	if at, isArr := field(gen["Genome"], "Genes").(*ast.ArrayType); isArr && at.Len == nil {
		if st, isPtr := at.Elt.(*ast.StarExpr); isPtr && c18bIsIdent(st.X, "Gene") {
			ok = true
		}
	}
	if !ok {
		return fmt.Errorf("neat/genetics: Genome.Genes is not a []*Gene")
	}
	nt, err := structsOf(filepath.Join(repo, "neat"))
	if err != nil {
		return err
	}
	for f := range c07CoeffFields {
		if ft := field(nt["Options"], f); ft == nil || !c18bIsIdent(ft, "float64") {
			return fmt.Errorf("neat: Options.%s is not a float64 field", f)
		}
	}
	return nil
}

// c07TranslateMethod translates one of the two methods; returns the top-level Coq text (loops, then the definition)
func c07TranslateMethod(fset *token.FileSet, src []byte, fd *ast.FuncDecl, coqName string) (text string, err error) {
	t := &c07Tr{fset: fset, src: src, fn: fd.Name.Name, coqName: coqName, genomes: map[string]string{}, loops: map[token.Pos]int{},
		reserved: map[string]bool{"math": true, "len": true, "float64": true, "int": true, "int64": true, "true": true, "false": true,
			"nil": true, "iota": true, "neat": true, "fuel": true, "st": true, "jp": true}}
	defer func() {
		if p := recover(); p != nil {
			if e, ok := p.(c07Error); ok {
				err = fmt.Errorf("%s", e.msg)
				return
			}
			panic(p)
		}
	}()
	if fd.Body == nil {
		t.fail(fd, "method without a body")
	}
	isGenomePtr := func(e ast.Expr) bool {
		st, ok := e.(*ast.StarExpr)
		return ok && c18bIsIdent(st.X, "Genome")
	}
	isOptsPtr := func(e ast.Expr) bool {
		st, ok := e.(*ast.StarExpr)
		if !ok {
			return false
		}
		sel, ok := st.X.(*ast.SelectorExpr)
		return ok && c18bIsIdent(sel.X, "neat") && sel.Sel.Name == "Options"
	}
	if len(fd.Recv.List[0].Names) != 1 || fd.Recv.List[0].Names[0].Name == "_" {
		t.fail(fd, "the receiver has no name")
	}
	recv := fd.Recv.List[0].Names[0]
	ft := fd.Type
	var params []*ast.Field
	if ft.Params != nil {
		params = ft.Params.List
	}
	if len(params) != 2 || len(params[0].Names) != 1 || len(params[1].Names) != 1 || !isGenomePtr(params[0].Type) || !isOptsPtr(params[1].Type) {
		t.fail(ft, "signature is not (og *Genome, opts *neat.Options)")
	}
	if ft.Results == nil || len(ft.Results.List) != 1 || len(ft.Results.List[0].Names) != 0 || !c18bIsIdent(ft.Results.List[0].Type, "float64") {
		t.fail(ft, "result is not an unnamed float64")
	}
	other, opts := params[0].Names[0], params[1].Names[0]
	for _, id := range []*ast.Ident{recv, other, opts} {
		if t.reserved[id.Name] || id.Name == "_" || !c18bIdentRe.MatchString(id.Name) {
			t.fail(id, "unsupported parameter name %q", id.Name)
		}
	}
	if recv.Name == other.Name || recv.Name == opts.Name || other.Name == opts.Name {
		t.fail(ft, "duplicate parameter names")
	}
	l1, l2 := "genes_"+recv.Name, "genes_"+other.Name
	t.genomes[recv.Name], t.genomes[other.Name] = l1, l2
	t.list1, t.list2 = l1, l2
	t.opts = opts.Name
	t.header = "(c_DisjointCoeff c_ExcessCoeff c_MutdiffCoeff : float) (" + l1 + " " + l2 + " : list " + c07GeneType + ")"
	t.headArgs = "c_DisjointCoeff c_ExcessCoeff c_MutdiffCoeff " + l1 + " " + l2
	env := c07Env{vars: map[string]c07Var{}}
	term := t.stmts(fd.Body.List, env.push(), func(c07Env) string {
		t.fail(fd.Body, "control reaches the end of the function without a return")
		return ""
	})
	for _, a := range t.aux {
		text += a + "\n"
	}
	text += fmt.Sprintf("(* %s:%d  func (%s *Genome) %s(%s *Genome, %s *neat.Options) float64 *)\n",
		filepath.Base(fset.Position(fd.Pos()).Filename), fset.Position(fd.Pos()).Line, recv.Name, fd.Name.Name, other.Name, opts.Name)
	text += "Definition " + coqName + " " + t.header + " : res float :=\n" + c18bIndent(term) + ".\n"
	return text, nil
}

func c07TranslateCompatBodies(outDir string) error {
	repo := repoRoot()
	path := filepath.Join(repo, "neat", "genetics", "genome_compatibility.go")
	src, err := os.ReadFile(path)
	if err != nil {
		return err
	}
	fset := token.NewFileSet()
	file, err := parser.ParseFile(fset, path, src, 0)
	if err != nil {
		return err
	}
	mathOK := false
	for _, im := range file.Imports {
		p, _ := strconv.Unquote(im.Path.Value)
		if im.Name != nil && (im.Name.Name == "math" && p != "math" || im.Name.Name == "neat" && !strings.HasSuffix(p, "/neat")) {
			return fmt.Errorf("%s: the name %s is bound to package %q", fset.Position(im.Pos()), im.Name.Name, p)
		}
		if p == "math" && (im.Name == nil || im.Name.Name == "math") {
			mathOK = true
		}
	}
	if !mathOK {
		return fmt.Errorf("%s: package math is not imported under its own name", path)
	}
	if err := c07CheckTypes(repo); err != nil {
		return err
	}
	targets := []struct{ goName, coqName string }{{"compatLinear", "gen_compat_linear"}, {"compatFast", "gen_compat_fast"}}
	var texts []string
	for _, tg := range targets {
		var fd *ast.FuncDecl
		for _, d := range file.Decls {
			f, ok := d.(*ast.FuncDecl)
			if !ok || f.Name.Name != tg.goName || f.Recv == nil || len(f.Recv.List) != 1 {
				continue
			}
			st, ok := f.Recv.List[0].Type.(*ast.StarExpr)
			if !ok || !c18bIsIdent(st.X, "Genome") {
				continue
			}
			if fd != nil {
				return fmt.Errorf("%s: two methods Genome.%s", fset.Position(f.Pos()), tg.goName)
			}
			fd = f
		}
		if fd == nil {
			return fmt.Errorf("%s: method Genome.%s not found", path, tg.goName)
		}
		txt, err := c07TranslateMethod(fset, src, fd, tg.coqName)
		if err != nil {
			return err
		}
		texts = append(texts, txt)
	}
	if err = os.MkdirAll(outDir, 0o755); err != nil {
		return err
	}
	tmp := filepath.Join(outDir, "CompatBodies.v.tmp")
	out, err := os.Create(tmp)
	if err != nil {
		return err
	}
	w := bufio.NewWriter(out)
	fmt.Fprintf(w, "(* GENERATED by `neatverif translate compatbodies` from neat/genetics/genome_compatibility.go -- do not edit.\n")
	fmt.Fprintf(w, "   The bodies of Genome.compatLinear and Genome.compatFast translated construct by construct\n")
	fmt.Fprintf(w, "   (harness/c07_translate.go).  genes_<x> is the list of (InnovationNum, MutationNum) of x.Genes, c_<F> is opts.<F>,\n")
	fmt.Fprintf(w, "   v_<name> is the Go variable <name>, p_<n> a gene read through a pointer.  x.Genes[i] is GoSlice.go_index (a panic\n")
	fmt.Fprintf(w, "   value when out of range), a *Gene variable is an option (nil = None; go_deref panics on it), every for loop is\n")
	fmt.Fprintf(w, "   a Fixpoint on fuel over the tuple of the variables it assigns (OutOfFuel when the fuel runs out), Go ints are\n")
	fmt.Fprintf(w, "   unbounded integers (no wrap-around), float64(int) is F64.f_of_Z.\n")
	fmt.Fprintf(w, "   proofs/CompatBodiesAgree.v proves both equal to compat_linear / compat_fast of model/Compat.v at binary64. *)\n")
	fmt.Fprintf(w, "From Coq Require Import ZArith List Bool Floats.\nFrom NeatModel Require Import Res F64 GoSlice.\nImport ListNotations.\nOpen Scope float_scope.\n\n")
	for _, txt := range texts {
		fmt.Fprintf(w, "%s\n", txt)
	}
	if err = w.Flush(); err != nil {
		return err
	}
	if err = out.Close(); err != nil {
		return err
	}
	dst := filepath.Join(outDir, "CompatBodies.v")
	if old, e := os.ReadFile(dst); e == nil {
		if nw, e2 := os.ReadFile(tmp); e2 == nil && string(old) == string(nw) {
			return os.Remove(tmp)
		}
	}
	return os.Rename(tmp, dst)
}
