package main

import (
	"fmt"

	"github.com/yaricom/goNEAT/v4/neat/genetics"
	"github.com/yaricom/goNEAT/v4/neat/network"
)

// insertFamily: geneInsert and nodeInsert called directly (hook VGeneInsert / VNodeInsert) on every ascending key
// list over {1,3,5,7,9,11} of length 0..6 and every new key 0..12 (equal keys included).  Go-side oracle: the
// result is ascending, holds exactly the old elements and the new one, and the caller's slice is not disturbed;
// correspondence: the order of the result is the one model/Insert.v computes (cases/InsertCases.v).
func insertFamily(r *Run, prop string) {
	universe := []int{1, 3, 5, 7, 9, 11}
	cf := r.NewCaseFile(90, "Res Genome Insert InsertCases "+prop+"Cases", "ins_case")
	id := 900000
	for mask := 0; mask < 1<<len(universe); mask++ {
		var keys []int
		for i, k := range universe {
			if mask&(1<<i) != 0 {
				keys = append(keys, k)
			}
		}
		for nk := 0; nk <= 12; nk++ {
			for which := 0; which < 2; which++ {
				id++
				in := map[string]interface{}{"kind": "insert", "function": []string{"geneInsert", "nodeInsert"}[which], "keys": keys, "new_key": nk}
				var order []int
				ok := true
				func() {
					defer func() {
						if p := recover(); p != nil {
							ok = false
							r.Fail(Failure{Key: fmt.Sprintf("insert-panic %v", in["function"]), What: fmt.Sprint("ordered insertion panicked: ", p), Input: in})
						}
					}()
					if which == 0 {
						old := make([]*genetics.Gene, len(keys))
						tag := map[*genetics.Gene]int{}
						for i, k := range keys {
							old[i] = &genetics.Gene{InnovationNum: int64(k)}
							tag[old[i]] = i
						}
						before := append([]*genetics.Gene{}, old...)
						x := &genetics.Gene{InnovationNum: int64(nk)}
						tag[x] = len(keys)
						res := genetics.VGeneInsert(old, x)
						for _, g := range res {
							t, known := tag[g]
							if !known {
								t = -1
							}
							order = append(order, t)
						}
						for i := range before {
							if old[i] != before[i] {
								r.Fail(Failure{Key: "insert-disturbs-argument geneInsert", What: "geneInsert rewrote the slice it was given", Input: in})
							}
						}
					} else {
						old := make([]*network.NNode, len(keys))
						tag := map[*network.NNode]int{}
						for i, k := range keys {
							old[i] = network.NewNNode(k, network.HiddenNeuron)
							tag[old[i]] = i
						}
						before := append([]*network.NNode{}, old...)
						x := network.NewNNode(nk, network.HiddenNeuron)
						tag[x] = len(keys)
						res := genetics.VNodeInsert(old, x)
						for _, n := range res {
							t, known := tag[n]
							if !known {
								t = -1
							}
							order = append(order, t)
						}
						for i := range before {
							if old[i] != before[i] {
								r.Fail(Failure{Key: "insert-disturbs-argument nodeInsert", What: "nodeInsert rewrote the slice it was given", Input: in})
							}
						}
					}
				}()
				if !ok {
					continue
				}
				// oracle: every element exactly once, keys ascending
				seen := map[int]int{}
				prev := -1
				sorted := true
				for _, t := range order {
					seen[t]++
					k := nk
					if t >= 0 && t < len(keys) {
						k = keys[t]
					}
					if k < prev {
						sorted = false
					}
					prev = k
				}
				complete := len(order) == len(keys)+1
				for t := 0; t <= len(keys); t++ {
					if seen[t] != 1 {
						complete = false
					}
				}
				if !sorted || !complete {
					what := "the result of the ordered insertion is not in ascending key order"
					if !complete {
						what = "the result of the ordered insertion does not hold every old element and the new one exactly once"
					}
					r.Fail(Failure{Key: fmt.Sprintf("insert-result %v", in["function"]), What: what, Input: in, Observed: order})
				}
				cf.Add(fmt.Sprintf("{| ins_id := %d; ins_keys := %s; ins_new := %d; ins_go := %s |}", id, IList(keys), nk, IList(order)))
				r.SaveInput(id, in)
				r.Count(fmt.Sprint("insert", which, keys, nk), len(keys) >= 2)
			}
		}
	}
	cf.Close("ins_mismatches")
	r.Hist("insert_cases", "all ascending lists over 6 keys x 13 new keys x 2 functions")
}
