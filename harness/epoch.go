package main

import (
	"encoding/json"
	"fmt"
	"math"
	"math/rand"
	"strings"

	"github.com/yaricom/goNEAT/v4/neat"
	"github.com/yaricom/goNEAT/v4/neat/genetics"
	neatmath "github.com/yaricom/goNEAT/v4/neat/math"
	"github.com/yaricom/goNEAT/v4/neat/network"
)

// Population-level machinery shared by C01, C02, C03, C08, C09, C10, C16, C17.

type epochInput struct {
	Prop     string            `json:"prop"`
	Seed     int64             `json:"seed"`
	Opts     *neat.Options     `json:"opts"`
	Start    map[string]string `json:"start"`
	Epochs   int               `json:"epochs"`
	FitRule  int               `json:"fitness_rule"`
	Parallel bool              `json:"parallel"`
	Random   bool              `json:"random_population"` // NewPopulationRandom instead of a start genome
	// ShrinkPop > 0: after the population is built the PopSize option is lowered by this much (the caller changed
	// its mind): the turnover may refuse (error) - that is not checked - but it must not succeed wrongly
	ShrinkPop int    `json:"shrink_pop_size_option,omitempty"`
	ShrinkAt  int    `json:"shrink_before_epoch,omitempty"` // the epoch index before which the option is lowered
	PopText   string `json:"population_file,omitempty"`     // ReadPopulation of this text instead of a start genome
}

func epochOptions(r *rand.Rand, maxPop int) *neat.Options {
	o := baseOptions()
	o.CompatThreshold = []float64{0.3, 1, 3, 6}[r.Intn(4)]
	o.DropOffAge = []int{1, 3, 15}[r.Intn(3)]
	o.PopSize = 3 + r.Intn(maxPop-2)
	o.RecurOnlyProb = []float64{0, 0.2, 0.5}[r.Intn(3)]
	o.MutateOnlyProb = r.Float64()
	o.MutateAddNodeProb = r.Float64() * 0.5
	o.MutateAddLinkProb = r.Float64()
	o.NewLinkTries = 20
	o.MutateConnectSensors = r.Float64()
	o.MutateToggleEnableProb = r.Float64() * 0.3
	o.MutateGeneReenableProb = r.Float64() * 0.3
	o.SurvivalThresh = []float64{0.1, 0.3, 1.0}[r.Intn(3)]
	o.AgeSignificance = []float64{1, 1.5}[r.Intn(2)]
	o.InterspeciesMateRate = []float64{0.001, 0.3}[r.Intn(2)]
	o.MateMultipointProb, o.MateMultipointAvgProb, o.MateSinglepointProb = 0.4, 0.3, 0.3
	if r.Intn(2) == 0 {
		o.GenCompatMethod = neat.GenomeCompatibilityMethodLinear
	}
	o.NodeActivators = []neatmath.NodeActivationType{neatmath.GaussianBipolarActivation, neatmath.SigmoidSteepenedActivation}
	o.NodeActivatorsProb = [][]float64{{0.5, 0.5}, {0.5, 0.5}, {0.875, 0.125}, {0.25, 0.75}}[r.Intn(4)]
	o.BabiesStolen = []int{0, 0, o.PopSize / 4, o.PopSize / 2, 1 + r.Intn(4)}[r.Intn(5)] // small pools (< 5): only the 4th+ species receive
	return o
}

// fitness rules: deterministic functions of (rule, epoch, index, genome). Rules 0-2 never tie;
// 3 and 4 tie everywhere and are only used where every sorted slice has at most 12 elements
// (Go's sort is then its stable insertion sort, which the model transliterates)
func fitnessFor(rule, epoch, i int, g *genetics.Genome) float64 {
	switch rule {
	case 0:
		return float64(1+(i*7+epoch)%13) + float64(len(g.Genes))*0.01 + float64(i)*1e-4
	case 1:
		return math.Ldexp(1, (i*5+epoch*3)%14-4) + float64(i)*1e-6
	case 2:
		if i == (epoch*3)%5 {
			return 1000 + float64(epoch)
		}
		return 1 + float64(i)*1e-3
	case 3:
		return 0
	case 4:
		return 1.5
	case 6:
		// stagnating: independent of the epoch and of the genome, so the record of the first epoch is
		// never beaten and delta coding fires every DropOffAge+5 epochs
		return float64(1+(i*7)%13) + float64(i)*1e-4
	case 11:
		// ordinary ratios at a tiny scale (normal floats around 2^-58): quotas depend on ratios only
		return math.Ldexp(float64(1+(i*7+epoch)%13)+float64(len(g.Genes))*0.01+float64(i)*1e-4, -60)
	case 10:
		// steady lineages: the first gene's mutation number is 10*lineage + size of the lineage's species; every
		// member of a species of that size scores its size, so after sharing everybody has 1.0 and a species expects
		// exactly as many offspring as it has members, epoch after epoch
		return float64(int(g.Genes[0].MutationNum) % 10)
	case 9:
		// small distinct positive values (all below 1e-4, the size of the floor adjustFitness gives to negative
		// values): nothing may be clamped, tied or reordered down here
		return 1e-6*float64(1+(i*7+epoch)%13) + float64(i)*1e-9 + float64(len(g.Genes))*1e-8
	case 7:
		// subnormal values: the population average of the adjusted values is a subnormal number whose rounding
		// error is not relative any more (recorded finding subnormal-fitness-quota-overshoot)
		if i == 0 {
			return 8 * math.SmallestNonzeroFloat64
		}
		return 4 * math.SmallestNonzeroFloat64
	case 8:
		// one value near the top of the range: the youth boost (x AgeSignificance > 1) overflows to +Inf
		// (recorded finding fitness-overflow-quota-panic)
		if i == 0 {
			return 1.7e308
		}
		return 1
	case 5:
		// mixed signs (C09 allows any assignment with at least one positive value)
		return float64((i*7+epoch)%13) - 4 + float64(i)*1e-4
	}
	return 1
}

func coqOrgObs(o *genetics.Organism) string {
	info := genetics.VOrganismInfo(o)
	sid := 0
	if o.Species != nil {
		sid = o.Species.Id
	}
	return fmt.Sprintf("(OO %s %s %s %s %s %s %s %s)", coqGenome(o.Genotype), F(o.Fitness), ZI(sid), ZI(o.Generation),
		B(info.IsPopulationChampionChild), F(info.HighestFitness), B(info.MutationStructBaby), B(info.MateBaby))
}

func coqPopObs(p *genetics.Population, next int64) string {
	var os, ss []string
	for _, o := range p.Organisms {
		os = append(os, coqOrgObs(o))
	}
	for _, s := range p.Species {
		ids := make([]int, len(s.Organisms))
		for i, o := range s.Organisms {
			ids[i] = o.Genotype.Id
		}
		ss = append(ss, fmt.Sprintf("(SO %s %s %s %s %s %s %s)", ZI(s.Id), ZI(s.Age), B(s.IsNovel), F(s.MaxFitnessEver), ZI(s.ExpectedOffspring),
			ZI(s.AgeOfLastImprovement), IList(ids)))
	}
	innovs, ni, nn := genetics.VPopulationCounters(p)
	env := &venv{Innovs: innovs, NextI: ni, NextN: int(nn)}
	return fmt.Sprintf("(PO %s %s %s %s %s %s %s)", List(os), List(ss), ZI(p.LastSpecies), F(p.HighestFitness), ZI(p.EpochsHighestLastChanged), coqEnv(env), Z(next))
}

// ---------- Go-side oracles of the population-level statements ----------

type popOracle struct {
	prop      string
	bad       func(key, what string)
	registry  map[int64]string // innovation number -> link key, over the whole history (C03)
	nodeRoles map[int]network.NodeNeuronType
	maxInnov  int64
	maxNode   int
	usedSp    map[int]bool // species ids that existed and died
	seenSp    map[int]bool
	prevMax   int64
	randomPop bool // NewPopulationRandom population: genomes without common ancestry (recorded finding)
	parallel  bool // parallel executor: two goroutines may both allocate the same structural innovation (C03 states that clause for the sequential executor only)
}

func newPopOracle(prop string, bad func(key, what string)) *popOracle {
	return &popOracle{prop: prop, bad: bad, registry: map[int64]string{}, nodeRoles: map[int]network.NodeNeuronType{}, usedSp: map[int]bool{}, seenSp: map[int]bool{},
		maxInnov: math.MinInt64, maxNode: math.MinInt32} // innovation numbers may be negative
}

// afterEpoch checks the C01/C02/C03 clauses on the population just produced
func (po *popOracle) afterEpoch(p *genetics.Population, opts *neat.Options, prev map[*genetics.Organism]bool, prevSpecies map[int][2]int, ioWant map[int]network.NodeNeuronType, first bool) {
	switch po.prop {
	case "C01", "C16":
		for _, o := range p.Organisms {
			if e := wfGenome(o.Genotype); e != nil {
				key := "illformed-genome-after-epoch"
				if po.randomPop && e.Error() == "no genes" {
					key = "singlepoint-empty-child-unrelated-parents" // the empty child survived (mate-only baby)
				}
				po.bad(key, "population holds an ill-formed genome: "+e.Error())
				break
			}
			have := ioNodeIds(o.Genotype)
			for id, role := range ioWant {
				if have[id] != role {
					po.bad("lost-io-node-after-epoch", fmt.Sprintf("genome lost input/bias/output node %d of the ancestors", id))
				}
			}
		}
	}
	if po.prop == "C02" || po.prop == "C16" {
		if len(p.Organisms) != opts.PopSize {
			po.bad("population-size", fmt.Sprintf("population holds %d organisms, configured size %d", len(p.Organisms), opts.PopSize))
		}
		inSpecies := map[*genetics.Organism]int{}
		spIds := map[int]bool{}
		for _, s := range p.Species {
			if spIds[s.Id] {
				po.bad("species-id-duplicate", "two species carry the same id")
			}
			spIds[s.Id] = true
			if len(s.Organisms) == 0 {
				po.bad("empty-species", "population lists an empty species")
			}
			if s.Id > p.LastSpecies {
				po.bad("species-id-above-counter", "species id above LastSpecies")
			}
			for _, o := range s.Organisms {
				inSpecies[o]++
				if o.Species != s {
					po.bad("species-backpointer", "organism listed by a species it does not point to")
				}
			}
			if po.usedSp[s.Id] && !po.seenSp[s.Id] {
				po.bad("species-id-reused", "a species id of an extinct species was issued again")
			}
		}
		gids := map[int]bool{}
		for _, o := range p.Organisms {
			if inSpecies[o] != 1 {
				po.bad("partition", fmt.Sprintf("organism belongs to %d species", inSpecies[o]))
			}
			if prev[o] {
				po.bad("old-organism-survived", "an organism of the previous generation is still in the population")
			}
			if gids[o.Genotype.Id] {
				po.bad("genome-id-duplicate", "two organisms carry the same genome id")
			}
			gids[o.Genotype.Id] = true
		}
		if len(inSpecies) != len(p.Organisms) {
			po.bad("partition", "species list organisms that are not in the population")
		}
		if !first {
			for _, s := range p.Species {
				if info, ok := prevSpecies[s.Id]; ok {
					want := info[0] + 1
					if info[1] == 1 {
						want = info[0]
					}
					if s.Age != want {
						po.bad("species-age", fmt.Sprintf("surviving species %d has age %d, expected %d", s.Id, s.Age, want))
					}
				} else if s.Age != 1 {
					po.bad("new-species-age", "a species founded during the turnover does not start at age one")
				}
			}
		}
		// bookkeeping for id reuse
		for id := range po.seenSp {
			if !spIds[id] {
				po.usedSp[id] = true
				delete(po.seenSp, id)
			}
		}
		for id := range spIds {
			po.seenSp[id] = true
		}
	}
	if po.prop == "C03" || po.prop == "C16" {
		newMaxI, newMaxN := po.maxInnov, po.maxNode
		for _, o := range p.Organisms {
			for _, x := range o.Genotype.Genes {
				k := fmt.Sprint(x.Link.InNode.Id, ">", x.Link.OutNode.Id, " ", x.Link.IsRecurrent)
				if old, ok := po.registry[x.InnovationNum]; ok {
					if old != k {
						po.bad("innovation-number-reused", fmt.Sprintf("innovation %d denotes %s and %s", x.InnovationNum, old, k))
					}
				} else {
					if !first && x.InnovationNum <= po.maxInnov {
						po.bad("innovation-number-not-fresh", fmt.Sprintf("innovation %d issued in this generation is not larger than %d held before", x.InnovationNum, po.maxInnov))
					}
					po.registry[x.InnovationNum] = k
				}
				if x.InnovationNum > newMaxI {
					newMaxI = x.InnovationNum
				}
			}
			// a module (control gene) carries an innovation number of the same numbering: it denotes that module
			for _, cg := range o.Genotype.ControlGenes {
				k := fmt.Sprint("module with control node ", cg.ControlNode.Id)
				if old, ok := po.registry[cg.InnovationNum]; ok {
					if old != k {
						po.bad("innovation-number-reused", fmt.Sprintf("innovation %d denotes %s and %s", cg.InnovationNum, old, k))
					}
				} else {
					if !first && cg.InnovationNum <= po.maxInnov {
						po.bad("innovation-number-not-fresh", fmt.Sprintf("module innovation %d issued in this generation is not larger than %d held before", cg.InnovationNum, po.maxInnov))
					}
					po.registry[cg.InnovationNum] = k
				}
				if cg.InnovationNum > newMaxI {
					newMaxI = cg.InnovationNum
				}
				if role, ok := po.nodeRoles[cg.ControlNode.Id]; ok {
					if role != network.NodeNeuronType(100) {
						po.bad("node-id-role-changed", fmt.Sprintf("node id %d denotes a control node and an ordinary node", cg.ControlNode.Id))
					}
				} else {
					po.nodeRoles[cg.ControlNode.Id] = network.NodeNeuronType(100)
				}
				if cg.ControlNode.Id > newMaxN {
					newMaxN = cg.ControlNode.Id
				}
			}
			for _, n := range o.Genotype.Nodes {
				if role, ok := po.nodeRoles[n.Id]; ok {
					if role != n.NeuronType {
						po.bad("node-id-role-changed", fmt.Sprintf("node id %d denotes nodes of different roles", n.Id))
					}
				} else {
					if !first && n.Id <= po.maxNode {
						po.bad("node-id-not-fresh", fmt.Sprintf("node id %d issued in this generation is not larger than %d held before", n.Id, po.maxNode))
					}
					po.nodeRoles[n.Id] = n.NeuronType
				}
				if n.Id > newMaxN {
					newMaxN = n.Id
				}
			}
		}
		po.maxInnov, po.maxNode = newMaxI, newMaxN
		if innovs, _, _ := genetics.VPopulationCounters(p); len(innovs) != 0 && !first {
			po.bad("innovations-not-forgotten", "the record of innovations survived the end of the generation")
		}
		// same structural innovation within this generation => same number (sequential executor):
		// two genes with the same link key that are both new in this generation must share the number
		if !first && po.prop == "C03" && !po.parallel {
			byKey := map[string]int64{}
			for _, o := range p.Organisms {
				for _, x := range o.Genotype.Genes {
					if x.InnovationNum > po.prevMaxInnov() {
						k := fmt.Sprint(x.Link.InNode.Id, ">", x.Link.OutNode.Id, " ", x.Link.IsRecurrent)
						if num, ok := byKey[k]; ok && num != x.InnovationNum {
							po.bad("same-innovation-different-numbers", fmt.Sprintf("link %s created twice in one generation with numbers %d and %d", k, num, x.InnovationNum))
						}
						byKey[k] = x.InnovationNum
					}
				}
			}
		}
		po.prevMax = po.maxInnov
	}
}

// ---------- running a history through the public API ----------

type historyResult struct {
	epochsRun  int
	err        error
	multi      int // epochs with more than one species
	structural int // babies with structural mutation
	champs     int
}

func startGenomeFor(in *epochInput) (*genetics.Genome, error) { return genomeFromText(in.Start) }

// runHistory executes the history on the real code; when cf != nil it also emits the correspondence case
func runHistory(r *Run, in *epochInput, cf *CaseFile, caseID int) historyResult {
	quiet()
	res := historyResult{}
	bad := func(key, what string) { r.Fail(Failure{Key: key, What: what, Input: in}) }
	po := newPopOracle(in.Prop, bad)
	po.randomPop = in.Random
	po.parallel = in.Parallel
	start, err := startGenomeFor(in)
	if err != nil {
		bad("start-genome-unreadable", err.Error())
		return res
	}
	startTerm := coqGenome(start)
	ioWant := ioNodeIds(start)
	rand.Seed(in.Seed)
	var pop *genetics.Population
	if in.PopText != "" {
		pop, err = genetics.ReadPopulation(strings.NewReader(in.PopText), in.Opts)
	} else if in.Random {
		pop, err = genetics.NewPopulationRandom(3, 2, 5, false, 0.5, in.Opts)
		ioWant = nil
	} else {
		pop, err = genetics.NewPopulation(start, in.Opts)
	}
	if err != nil {
		bad("new-population-error", "NewPopulation failed: "+err.Error())
		return res
	}
	peeks := []int64{rand.Int63()}
	full := cf != nil && caseID%8 == 0 // every eighth case carries the full observations as well
	goObs := func(p *genetics.Population, next int64) string {
		if full {
			return fmt.Sprintf("(GF %d %s)", popDigest(p, next), coqPopObs(p, next))
		}
		return fmt.Sprintf("(GD %d)", popDigest(p, next))
	}
	spawnObs := goObs(pop, peeks[0])
	po.afterEpoch(pop, in.Opts, map[*genetics.Organism]bool{}, nil, ioWant, true)
	var steps []string
	var ex genetics.PopulationEpochExecutor = &genetics.SequentialPopulationEpochExecutor{}
	if in.Parallel {
		ex = &genetics.ParallelPopulationEpochExecutor{}
	}
	ctx := in.Opts.NeatContext()
	optsBefore, _ := json.Marshal(in.Opts)
	for ep := 0; ep < in.Epochs; ep++ {
		fits := make([]float64, len(pop.Organisms))
		prev := map[*genetics.Organism]bool{}
		for i, o := range pop.Organisms {
			fits[i] = fitnessFor(in.FitRule, ep, i, o.Genotype)
			o.Fitness = fits[i]
			prev[o] = true
		}
		prevSpecies := map[int][2]int{}
		for _, s := range pop.Species {
			nv := 0
			if s.IsNovel {
				nv = 1
			}
			prevSpecies[s.Id] = [2]int{s.Age, nv}
		}
		// does the population hold genomes without a common first gene (no common ancestry)?
		unrelated := false
		for _, o := range pop.Organisms {
			if len(o.Genotype.Genes) == 0 {
				unrelated = true // a gene-less child of an earlier single-point crossover of unrelated parents lives on
			}
			if len(o.Genotype.Genes) > 0 && len(pop.Organisms[0].Genotype.Genes) > 0 &&
				o.Genotype.Genes[0].InnovationNum != pop.Organisms[0].Genotype.Genes[0].InnovationNum {
				unrelated = true
			}
		}
		var eerr error
		func() {
			defer func() {
				if p := recover(); p != nil {
					eerr = fmt.Errorf("panic: %v", p)
				}
			}()
			eerr = ex.NextEpoch(ctx, ep, pop)
		}()
		if eerr != nil {
			res.err = eerr
			steps = append(steps, fmt.Sprintf("{| es_fitness := %s; es_go := None |}", FList(fits)))
			key := "epoch-error"
			if in.Random && unrelated && (strings.Contains(eerr.Error(), "genome has no genes") || strings.Contains(eerr.Error(), "no traits od genes") ||
				strings.Contains(eerr.Error(), "without GENES") || strings.Contains(eerr.Error(), "no genes to") ||
				strings.Contains(eerr.Error(), "invalid argument to Intn")) { // a mutator draws a gene index of the gene-less child
				key = "singlepoint-empty-child-unrelated-parents"
			}
			if in.FitRule == 7 && strings.Contains(eerr.Error(), "progeny size") {
				key = "subnormal-fitness-quota-overshoot"
			}
			if in.FitRule == 8 && in.Opts.AgeSignificance > 1 && strings.Contains(eerr.Error(), "panic: runtime error: index out of range [0] with length 0") {
				key = "fitness-overflow-quota-panic"
			}
			if in.Prop == "C02" || in.Prop == "C16" || in.Prop == "C01" {
				bad(key, fmt.Sprintf("epoch %d failed: %v", ep, eerr))
			}
			break
		}
		if optsAfter, _ := json.Marshal(in.Opts); string(optsAfter) != string(optsBefore) {
			// the options are shared by every reproduction goroutine: a write to them is a data race under the
			// parallel executor and hidden state for the sequential one
			if in.Prop == "C16" || in.Prop == "C17" {
				bad("shared-options-written", fmt.Sprintf("NextEpoch changed the caller's options: %s -> %s", optsBefore, optsAfter))
			}
			optsBefore = optsAfter
		}
		pk := rand.Int63()
		peeks = append(peeks, pk)
		steps = append(steps, fmt.Sprintf("{| es_fitness := %s; es_go := Some %s |}", FList(fits), goObs(pop, pk)))
		po.afterEpoch(pop, in.Opts, prev, prevSpecies, ioWant, false)
		res.epochsRun++
		if len(pop.Species) > 1 {
			res.multi++
		}
		for _, o := range pop.Organisms {
			if genetics.VOrganismInfo(o).MutationStructBaby {
				res.structural++
			}
		}
	}
	if cf != nil && !in.Random && !in.Parallel {
		last := peeks[len(peeks)-1]
		n := 4096
		var tape []int64
		pos := -1
		for pos < 0 && n <= 1<<24 {
			tape = tapeFor(in.Seed, n)
			for i := len(tape) - 1; i >= 0; i-- {
				if tape[i] == last {
					pos = i
					break
				}
			}
			n *= 4
		}
		if res.err != nil || pos < 0 {
			// a failing epoch consumed an unknown number of draws: give the model a generous tape
			if pos < 0 {
				pos = len(tape) - 1
			} else if pos+20000 < len(tape) {
				pos += 20000
			} else {
				pos = len(tape) - 1
			}
		}
		r.Hist("tape_cells", bucket(pos/64))
		cf.Add(fmt.Sprintf("{| ec_id := %d; ec_opts := %s; ec_start := %s; ec_seed := %s; ec_draws := %d; ec_spawn_go := %s; ec_steps := %s |}",
			caseID, coqOptions(in.Opts), startTerm, Z(in.Seed), pos+1, spawnObs, List(steps)))
		r.SaveInput(caseID, in)
	}
	return res
}

func (po *popOracle) prevMaxInnov() int64 { return po.prevMax }

// replayOpsOrEpoch dispatches a C01 replay (operator case or epoch history)
func replayOpsOrEpoch(r *Run, input []byte) error {
	if handled, err := c01RandReplay(r, input); handled {
		return err
	}
	var probe struct {
		Op *opSpec `json:"op"`
	}
	if json.Unmarshal(input, &probe) == nil && probe.Op != nil {
		return replayOps(r, input)
	}
	return replayEpoch(r, input)
}

func replayEpoch(r *Run, input []byte) error {
	var in epochInput
	if err := json.Unmarshal(input, &in); err != nil {
		return err
	}
	if in.Prop == "C09" || in.Prop == "C10" || in.Prop == "C08" {
		runPhased(r, &in)
	} else {
		runHistory(r, &in, nil, 0)
	}
	return nil
}
