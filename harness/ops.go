package main

import (
	"encoding/json"
	"fmt"
	"math"
	"math/rand"
	"strings"

	"github.com/yaricom/goNEAT/v4/neat"
	"github.com/yaricom/goNEAT/v4/neat/genetics"
	"github.com/yaricom/goNEAT/v4/neat/network"
)

// Shared machinery of C01, C04, C05, C06: apply one genetic operator on the real code, emit the
// correspondence case, evaluate the Go-side oracles of the property statements.

var mutKinds = []string{"connect_sensors", "add_link", "add_node", "link_weights", "link_weights_cold", "random_trait",
	"link_trait", "node_trait", "toggle_enable", "gene_reenable", "all_nonstructural"}

type opSpec struct {
	Kind   string `json:"kind"` // dup | mut | mate
	Mut    int    `json:"mut"`  // index into mutKinds
	Times  int    `json:"times"`
	Method int    `json:"method"`
	NewId  int    `json:"new_id"`
	F1     JF     `json:"f1"`
	F2     JF     `json:"f2"`
}

type innovJSON struct {
	Type byte                `json:"type"`
	I    genetics.Innovation `json:"i"`
}

type opInput struct {
	Prop  string            `json:"prop"`
	Op    opSpec            `json:"op"`
	Seed  int64             `json:"seed"`
	G     map[string]string `json:"genome"`
	G2    map[string]string `json:"genome2,omitempty"`
	Innov []innovJSON       `json:"innovations"`
	NextI int64             `json:"next_innov"`
	NextN int               `json:"next_node"`
	Opts  *neat.Options     `json:"opts"`
}

type opsGen struct {
	r          *Run
	prop       string
	cf         *CaseFile
	id         int
	shard      int
	perShard   int
	lastInput  *opInput
	lastBefore gsnap
}

func newOpsGen(r *Run, prop string) *opsGen {
	g := &opsGen{r: r, prop: prop}
	g.cf = r.NewCaseFile(0, "Res F64 Genome Options GenomeLit OpsCases "+prop+"Cases", "op_case")
	return g
}

func (o *opsGen) close() { o.cf.Close("ops_mismatches") }

func (o *opsGen) rotate() {
	if o.perShard >= 400 {
		o.cf.Close("ops_mismatches")
		o.shard++
		o.cf = o.r.NewCaseFile(o.shard, "Res F64 Genome Options GenomeLit OpsCases "+o.prop+"Cases", "op_case")
		o.perShard = 0
	}
}

func coqOp(op opSpec) string {
	switch op.Kind {
	case "dup":
		return fmt.Sprintf("(OpDup %s)", ZI(op.NewId))
	case "mut":
		return fmt.Sprintf("(OpMut %d %d)", op.Mut, op.Times)
	default:
		return fmt.Sprintf("(OpMate %d %s %s %s)", op.Method, ZI(op.NewId), F(float64(op.F1)), F(float64(op.F2)))
	}
}

func envFromInput(in *opInput) *venv {
	e := &venv{NextI: in.NextI, NextN: in.NextN}
	for _, ij := range in.Innov {
		var i *genetics.Innovation
		if ij.Type == 1 {
			i = genetics.NewInnovationForNode(ij.I.InNodeId, ij.I.OutNodeId, ij.I.InnovationNum, ij.I.InnovationNum2, ij.I.NewNodeId, ij.I.OldInnovNum)
		} else {
			i = genetics.NewInnovationForRecurrentLink(ij.I.InNodeId, ij.I.OutNodeId, ij.I.InnovationNum, ij.I.NewWeight, ij.I.NewTraitNum, ij.I.IsRecurrent)
		}
		e.Innovs = append(e.Innovs, *i)
	}
	return e
}

func inputFor(prop string, op opSpec, seed int64, g, g2 *genetics.Genome, env *venv, opts *neat.Options) *opInput {
	in := &opInput{Prop: prop, Op: op, Seed: seed, G: genomeText(g), NextI: env.NextI, NextN: env.NextN, Opts: opts}
	if g2 != nil {
		in.G2 = genomeText(g2)
	}
	for _, i := range env.Innovs {
		in.Innov = append(in.Innov, innovJSON{Type: genetics.VInnovationType(i), I: i})
	}
	return in
}

// opOutcome is what one application produced
type opOutcome struct {
	child  *genetics.Genome // the operated genome (for mutators: the pre-duplicated copy, mutated in place)
	before gsnap            // value of the operand before the operator ran
	flag   bool
	err    error
	env    *venv
}

// apply runs op on the real code. Mutators work on `g` itself (callers pass a fresh duplicate).
func (o *opsGen) apply(op opSpec, g, g2 *genetics.Genome, env *venv, opts *neat.Options, emit bool) opOutcome {
	seed := o.r.Rng.Int63()
	in := inputFor(o.prop, op, seed, g, g2, env, opts)
	o.lastInput = in
	o.lastBefore = snap(g)
	gTerm, g2Term, envTerm := coqGenome(g), "", coqEnv(env)
	if g2 != nil {
		g2Term = coqGenome(g2)
	} else {
		g2Term = gTerm
	}
	out := opOutcome{before: snap(g), env: env}
	rand.Seed(seed)
	func() {
		defer func() {
			if p := recover(); p != nil {
				out.err = fmt.Errorf("panic: %v", p)
			}
		}()
		switch op.Kind {
		case "dup":
			out.child, out.err = genetics.VDuplicate(g, op.NewId)
			out.flag = true
		case "mut":
			out.child = g
			out.flag, out.err = genetics.VMutate(mutKinds[op.Mut], g, env, env, opts, 1, op.Times)
		case "mate":
			out.child, out.err = genetics.VMate(op.Method, g, g2, op.NewId, float64(op.F1), float64(op.F2))
			out.flag = true
		}
	}()
	next := rand.Int63()
	if emit {
		// the tape: everything the implementation consumed plus the next draw
		n := 256
		var tape []int64
		pos := -1
		for pos < 0 && n <= 1<<20 {
			tape = tapeFor(seed, n)
			for i, v := range tape {
				if v == next {
					pos = i
					break
				}
			}
			n *= 4
		}
		if pos < 0 {
			o.r.Note("could not locate the next draw in the tape")
			pos = len(tape) - 1
		}
		tape = tape[:pos+1]
		o.r.Hist("draws_consumed", bucket(pos))
		goRes := "GoFailed"
		if out.err == nil && out.child != nil {
			goRes = fmt.Sprintf("(GoOk %s %s %s %s)", coqGenome(out.child), B(out.flag), coqEnv(env), Z(next))
		}
		o.rotate()
		o.cf.Add(fmt.Sprintf("{| oc_id := %d; oc_op := %s; oc_g := %s; oc_g2 := %s; oc_env := %s; oc_opts := %s; oc_tape := %s; oc_go := %s |}",
			o.id, coqOp(op), gTerm, g2Term, envTerm, coqOptions(opts), ZList(tape), goRes))
		o.r.SaveInput(o.id, in)
		o.id++
		o.perShard++
	}
	return out
}

func bucket(n int) string {
	switch {
	case n == 0:
		return "0"
	case n < 4:
		return "1-3"
	case n < 16:
		return "4-15"
	case n < 64:
		return "16-63"
	case n < 256:
		return "64-255"
	}
	return ">=256"
}

// ---------- Go-side oracles (the property statements) ----------

type badf func(key, what string)

func checkFrame(before gsnap, g *genetics.Genome, what string, nodesMayChangeTrait bool, bad badf) {
	after := snap(g)
	if !nodesMayChangeTrait && strings.Join(before.Nodes, ";") != strings.Join(after.Nodes, ";") {
		bad(what+"-changed-nodes", what+" mutation changed the node set")
	}
	if nodesMayChangeTrait {
		if len(before.Nodes) != len(after.Nodes) {
			bad(what+"-changed-nodes", what+" mutation changed the node set")
		} else {
			for i := range before.Nodes {
				a, b := strings.Fields(before.Nodes[i]), strings.Fields(after.Nodes[i])
				if a[0] != b[0] || a[1] != b[1] || a[2] != b[2] {
					bad(what+"-changed-nodes", what+" mutation changed a node's id, role or activation")
				}
			}
		}
	}
	if len(before.Genes) != len(after.Genes) {
		bad(what+"-changed-gene-count", what+" mutation changed the number of genes")
		return
	}
	for i := range before.Genes {
		a1, a2, a3, _, _, a6, _, _ := geneKey(before.Genes[i])
		b1, b2, b3, _, _, b6, _, _ := geneKey(after.Genes[i])
		if a1 != b1 || a2 != b2 || a3 != b3 || a6 != b6 {
			bad(what+"-changed-endpoints", what+" mutation changed gene endpoints or innovation numbers")
		}
	}
}

func checkToggle(before gsnap, g *genetics.Genome, bad badf) {
	after := snap(g)
	if len(before.Genes) != len(after.Genes) {
		return
	}
	outB, outA := map[string]int{}, map[string]int{}
	for i := range before.Genes {
		in, _, _, _, _, _, _, en := geneKey(before.Genes[i])
		if en == "true" {
			outB[in]++
		}
		in2, _, _, _, _, _, _, en2 := geneKey(after.Genes[i])
		if en2 == "true" {
			outA[in2]++
		}
	}
	for k, v := range outB {
		if v > 0 && outA[k] == 0 {
			bad("toggle-disabled-last-out-gene", "toggle-enable disabled the last enabled gene leaving node "+k)
		}
	}
}

func checkReenable(before gsnap, g *genetics.Genome, bad badf) {
	after := snap(g)
	if len(before.Genes) != len(after.Genes) {
		return
	}
	first := -1
	for i := range before.Genes {
		_, _, _, _, _, _, _, en := geneKey(before.Genes[i])
		if en == "false" {
			first = i
			break
		}
	}
	for i := range before.Genes {
		want := before.Genes[i]
		if i == first {
			want = strings.TrimSuffix(want, "false") + "true"
		}
		if want != after.Genes[i] {
			bad("reenable-wrong-gene", "re-enable changed something other than enabling the first disabled gene")
			return
		}
	}
}

func checkAddNode(before gsnap, g *genetics.Genome, ok bool, bad badf) {
	after := snap(g)
	if !ok {
		return // the property speaks of successful mutations
	}
	if strings.Join(before.Traits, ";") != strings.Join(after.Traits, ";") {
		bad("addnode-traits", "add-node changed traits")
	}
	if len(after.Nodes) != len(before.Nodes)+1 || len(after.Genes) != len(before.Genes)+2 {
		bad("addnode-counts", "add-node did not add exactly one node and two genes")
		return
	}
	bn := map[string]bool{}
	for _, n := range before.Nodes {
		bn[n] = true
	}
	var newNode string
	newCount := 0
	for _, n := range after.Nodes {
		if !bn[n] {
			newNode = n
			newCount++
		}
	}
	nf := strings.Fields(newNode)
	if newCount != 1 || len(nf) == 0 || nf[1] != fmt.Sprint(int(network.HiddenNeuron)) {
		bad("addnode-new-node", "add-node: the new node is not exactly one new hidden node")
		return
	}
	for _, n := range before.Nodes {
		if strings.Fields(n)[0] == nf[0] {
			bad("addnode-new-node", "add-node: new node id is not fresh")
		}
	}
	nid := nf[0]
	bg := map[string]string{}
	for _, s := range before.Genes {
		_, _, _, _, _, innov, _, _ := geneKey(s)
		bg[innov] = s
	}
	var changed []string
	var g1, g2 string
	for _, s := range after.Genes {
		in, out, _, _, _, innov, _, _ := geneKey(s)
		if b, ok := bg[innov]; ok {
			if b != s {
				changed = append(changed, b+" => "+s)
			}
		} else if out == nid && g1 == "" {
			g1 = s
		} else if in == nid && g2 == "" {
			g2 = s
		} else {
			bad("addnode-stray-gene", "add-node added a gene that does not touch the new node")
		}
	}
	if len(changed) != 1 || g1 == "" || g2 == "" {
		bad("addnode-changed-other-genes", "add-node changed other than exactly one existing gene / did not add a->n and n->b")
		return
	}
	parts := strings.Split(changed[0], " => ")
	a, b, rec, w, t1, _, m1, en := geneKey(parts[0])
	a2, b2, rec2, w2, t2, _, m2, en2 := geneKey(parts[1])
	if en != "true" || en2 != "false" || a != a2 || b != b2 || rec != rec2 || w != w2 || t1 != t2 || m1 != m2 {
		bad("addnode-split-gene", "add-node: the split gene was not an enabled gene that is now disabled and otherwise unchanged")
	}
	i1, o1, r1, w1, _, _, _, e1 := geneKey(g1)
	i2, o2, r2, w22, _, _, _, e2 := geneKey(g2)
	if i1 != a || o1 != nid || r1 != rec || w1 != fmt.Sprint(math.Float64bits(1.0)) || e1 != "true" {
		bad("addnode-gene1", "add-node: gene a->n must have weight 1, the old recurrence flag and be enabled")
	}
	if i2 != nid || o2 != b || r2 != "false" || w22 != w || e2 != "true" {
		bad("addnode-gene2", "add-node: gene n->b must have the old weight and be enabled")
	}
}

func checkAddLink(before gsnap, g *genetics.Genome, ok bool, bad badf) {
	after := snap(g)
	if strings.Join(before.Nodes, ";") != strings.Join(after.Nodes, ";") || strings.Join(before.Traits, ";") != strings.Join(after.Traits, ";") {
		bad("addlink-nodes-changed", "add-link changed nodes or traits")
	}
	bg := map[string]bool{}
	links := map[string]bool{}
	for _, s := range before.Genes {
		bg[s] = true
		in, out, rec, _, _, _, _, _ := geneKey(s)
		links[in+">"+out+rec] = true
	}
	added := 0
	for _, s := range after.Genes {
		if !bg[s] {
			added++
			in, out, rec, _, _, _, _, en := geneKey(s)
			if links[in+">"+out+rec] {
				bad("addlink-duplicates-link", "add-link added a gene that duplicates an existing link")
			}
			if en != "true" {
				bad("addlink-gene-disabled", "add-link added a disabled gene")
			}
			inOK := false
			for _, n := range g.Nodes {
				if fmt.Sprint(n.Id) == out && n.IsSensor() {
					bad("addlink-into-sensor", "add-link added a gene that ends in a sensor")
				}
				if fmt.Sprint(n.Id) == in {
					inOK = true
				}
			}
			if !inOK {
				bad("addlink-unknown-node", "add-link added a gene from a node that is not in the genome")
			}
		}
	}
	if len(after.Genes) != len(before.Genes)+added {
		bad("addlink-removed-genes", "add-link removed or changed existing genes")
	}
	if ok && added != 1 {
		bad("addlink-true-but-not-one", fmt.Sprintf("add-link reported success but added %d genes", added))
	}
	if !ok && added != 0 {
		bad("addlink-false-but-added", "add-link reported failure but added genes")
	}
}

func checkConnect(before gsnap, g *genetics.Genome, ok bool, bad badf) {
	after := snap(g)
	if strings.Join(before.Nodes, ";") != strings.Join(after.Nodes, ";") {
		bad("connect-nodes-changed", "connect-sensors changed nodes")
	}
	bg := map[string]bool{}
	connected := map[string]bool{}
	for _, s := range before.Genes {
		bg[s] = true
		in, _, _, _, _, _, _, _ := geneKey(s)
		connected[in] = true
	}
	srcs := map[string]int{}
	nAdded := 0
	for _, s := range after.Genes {
		if !bg[s] {
			nAdded++
			in, _, rec, _, _, _, _, _ := geneKey(s)
			srcs[in]++
			if connected[in] {
				bad("connect-from-connected-sensor", "connect-sensors added a gene from an already connected node")
			}
			if rec != "false" {
				bad("connect-recurrent", "connect-sensors added a recurrent gene")
			}
			for _, n := range g.Nodes {
				if fmt.Sprint(n.Id) == in && !n.IsSensor() {
					bad("connect-from-non-sensor", "connect-sensors added a gene from a non-sensor")
				}
			}
		}
	}
	if len(after.Genes) != len(before.Genes)+nAdded {
		bad("connect-removed-genes", "connect-sensors removed or changed existing genes")
	}
	if len(srcs) > 1 {
		bad("connect-several-sensors", "connect-sensors connected more than one sensor")
	}
	if !ok && nAdded > 0 {
		bad("connect-changed-but-reported-no-change", "connect-sensors added genes although it reported that nothing was done")
	}
	if ok {
		nonSensors := 0
		for _, n := range g.Nodes {
			if !n.IsSensor() {
				nonSensors++
			}
		}
		for _, c := range srcs {
			if c != nonSensors {
				bad("connect-not-every-non-sensor", "connect-sensors did not connect the sensor to every non-sensor node")
			}
		}
		if len(srcs) != 1 {
			bad("connect-result-flag", "connect-sensors reported success without adding genes from one sensor")
		}
	}
}

func checkMate(m int, p1, p2 *genetics.Genome, f1, f2 float64, c *genetics.Genome, bad badf) {
	name := []string{"multipoint", "multipoint-avg", "singlepoint"}[m]
	g1, g2 := map[int64]*genetics.Gene{}, map[int64]*genetics.Gene{}
	for _, g := range p1.Genes {
		g1[g.InnovationNum] = g
	}
	for _, g := range p2.Genes {
		g2[g.InnovationNum] = g
	}
	p1better := f1 > f2 || (f1 == f2 && len(p1.Genes) < len(p2.Genes))
	seen := map[int64]bool{}
	touched := map[int]bool{}
	for _, g := range c.Genes {
		a, b := g1[g.InnovationNum], g2[g.InnovationNum]
		if a == nil && b == nil {
			bad(name+"-gene-from-nowhere", "child gene carries an innovation number of neither parent")
			continue
		}
		if seen[g.InnovationNum] {
			bad(name+"-duplicate-innovation", "child carries an innovation number twice")
		}
		seen[g.InnovationNum] = true
		touched[g.Link.InNode.Id], touched[g.Link.OutNode.Id] = true, true
		src := a
		if src == nil {
			src = b
		}
		if !g.Link.IsEqualGenetically(src.Link) {
			bad(name+"-endpoints-differ", "child gene endpoints / recurrence flag differ from the parent gene")
		}
		okw := false
		for _, s := range []*genetics.Gene{a, b} {
			if s != nil && math.Float64bits(s.Link.ConnectionWeight) == math.Float64bits(g.Link.ConnectionWeight) {
				okw = true
			}
		}
		if a != nil && b != nil && m == 1 {
			// the averaging method: a gene present in both parents carries exactly the mean
			okw = math.Float64bits(g.Link.ConnectionWeight) == math.Float64bits((a.Link.ConnectionWeight+b.Link.ConnectionWeight)/2)
		}
		if a != nil && b != nil && m == 2 && g.Link.ConnectionWeight == (a.Link.ConnectionWeight+b.Link.ConnectionWeight)/2 {
			okw = true
		}
		if !okw {
			bad(name+"-weight", "child gene weight is neither a parent's weight nor (where the method averages) their mean")
		}
		if m != 2 && (a == nil) != (b == nil) {
			if (a != nil) != p1better {
				bad(name+"-gene-from-worse-parent", "disjoint/excess gene inherited from the less fit parent")
			}
		}
		allEn, carried := true, 0
		for _, s := range []*genetics.Gene{a, b} {
			if s != nil {
				carried++
				if !s.IsEnabled {
					allEn = false
				}
			}
		}
		if allEn && !g.IsEnabled {
			bad(name+"-disabled-though-enabled-in-parents", "child gene disabled although enabled in every parent that carries it")
		}
		if carried == 1 && !allEn && g.IsEnabled {
			bad(name+"-enabled-though-disabled-in-only-parent", "child gene enabled although disabled in the only parent that carries it")
		}
	}
	if m != 2 {
		for k := range g1 {
			if g2[k] != nil && !seen[k] {
				bad(name+"-matching-gene-lost", "gene present in both parents not inherited")
			}
		}
	}
	for _, n := range c.Nodes {
		if n.NeuronType == network.HiddenNeuron && !touched[n.Id] {
			bad(name+"-untouched-hidden-node", "child has a hidden node no gene touches")
		}
		delete(touched, n.Id)
	}
	if len(touched) != 0 {
		bad(name+"-missing-node", "child lacks a node one of its genes touches")
	}
	for _, p := range []*genetics.Genome{p1, p2} {
		for _, n := range p.Nodes {
			if n.NeuronType != network.HiddenNeuron && c.NodeWithId(n.Id) == nil {
				bad(name+"-lost-io-node", "child lost an input, bias or output node")
			}
		}
	}
	if len(c.Traits) != len(p1.Traits) {
		bad(name+"-trait-count", "child trait count differs from the parents'")
	} else {
		for i, tr := range c.Traits {
			for j := range tr.Params {
				if tr.Params[j] != (p1.Traits[i].Params[j]+p2.Traits[i].Params[j])/2 {
					bad(name+"-trait-average", "child trait parameters are not the parents' means")
				}
			}
		}
	}
}

// ---------- histories ----------

type family struct {
	members []*genetics.Genome
	env     *venv
	opts    *neat.Options
	start   *genetics.Genome
	sibling *family // an independently numbered lineage of the same start genome (C01 only)
}

func newFamily(r *rand.Rand) *family {
	starts := startGenomes()
	k := r.Intn(len(starts))
	s := starts[k]
	f := &family{members: []*genetics.Genome{s}, env: startEnv(s), opts: randOptions(r), start: s}
	s2 := startGenomes()[k]
	f.sibling = &family{members: []*genetics.Genome{s2}, env: startEnv(s2), opts: f.opts, start: s2}
	return f
}

// fitness pairs incl. the boundary family: exact ties, near ties, infinite ties, tiny values, signed zeros
func fitnessPair(r *rand.Rand) (float64, float64) {
	switch r.Intn(10) {
	case 0:
		return 1, math.Nextafter(1, 2)
	case 1:
		return 1 + 1e-12, 1
	case 2:
		return math.Inf(1), math.Inf(1)
	case 3:
		return 1e-300, 2e-300
	case 4:
		return math.Copysign(0, -1), 0
	}
	fit := []float64{0, 1, 1, 2.5}
	return fit[r.Intn(4)], fit[r.Intn(4)]
}

func (f *family) pick(r *rand.Rand) *genetics.Genome { return f.members[r.Intn(len(f.members))] }

// stepRec applies one random operator; emits a case when the property is about that kind of operator
func (o *opsGen) stepRec(f *family, stepNo int, mateProb float64, mutWeights []int, prop string) (opSpec, *genetics.Genome, *genetics.Genome, opOutcome, gsnap) {
	r := o.r.Rng
	emitMate := prop != "C05" && prop != "none"
	emitMut := prop != "C04" && prop != "none"
	if r.Intn(8) == 0 {
		f.env.Innovs = nil // a new generation begins: the record of innovations is forgotten
	}
	g := f.pick(r)
	if r.Float64() < mateProb && len(f.members) > 1 {
		g2 := f.pick(r)
		cross := false
		if prop == "C01" && f.sibling != nil && r.Intn(3) == 0 {
			// parents from independently numbered lineages: the same number may denote different links
			g2 = f.sibling.pick(r)
			cross = true // (the caller recognises the sibling's member by identity: no copies here)
		}
		if !cross && r.Intn(6) == 0 {
			// parents in shapes evolution rarely reaches but the property allows: every gene disabled (the child
			// then has no enabled gene either), or weights at the bottom of the float range (where halving before
			// adding is not the same as adding before halving)
			a, e1 := genetics.VDuplicate(g, g.Id)
			b, e2 := genetics.VDuplicate(g2, g2.Id)
			if e1 == nil && e2 == nil {
				if v := r.Intn(3); v == 2 {
					// trait parameters of either sign (the readers accept any number; only Trait.Mutate clamps)
					ps := []float64{-1.5, -0.25, 0, 0.5, 2, -1e-300, -3e300}
					for _, g := range []*genetics.Genome{a, b} {
						for _, t := range g.Traits {
							for j := range t.Params {
								t.Params[j] = ps[r.Intn(len(ps))]
							}
						}
					}
				} else if v == 0 {
					for _, x := range a.Genes {
						x.IsEnabled = false
					}
					for _, x := range b.Genes {
						x.IsEnabled = false
					}
				} else {
					ws := []float64{5e-324, -5e-324, 1.5e-323, 2.5e-323, 1e-310, -3e-308, 1.7e308, 0}
					off := r.Intn(3)
					for _, x := range a.Genes {
						x.Link.ConnectionWeight = ws[int(((x.InnovationNum%8)+8)%8)%len(ws)]
					}
					for _, x := range b.Genes {
						x.Link.ConnectionWeight = ws[(int(((x.InnovationNum%8)+8)%8)+off)%len(ws)]
					}
				}
				g, g2 = a, b
			}
		}
		f1, f2 := fitnessPair(r)
		op := opSpec{Kind: "mate", Method: r.Intn(3), NewId: 100 + stepNo, F1: JF(f1), F2: JF(f2)}
		b2 := snap(g2)
		out := o.apply(op, g, g2, f.env, f.opts, emitMate)
		return op, g, g2, out, b2
	}
	// mutators work in place: operate on a fresh duplicate so that family members stay intact
	total := 0
	for _, w := range mutWeights {
		total += w
	}
	k, x := 0, r.Intn(total)
	for i, w := range mutWeights {
		if x < w {
			k = i
			break
		}
		x -= w
	}
	child, err := genetics.VDuplicate(g, 100+stepNo)
	if err != nil {
		return opSpec{Kind: "dup"}, g, nil, opOutcome{err: err}, gsnap{}
	}
	op := opSpec{Kind: "mut", Mut: k, Times: 1 + r.Intn(3)}
	out := o.apply(op, child, nil, f.env, f.opts, emitMut)
	return op, child, nil, out, gsnap{}
}

var defaultMutWeights = []int{2, 4, 4, 2, 1, 1, 1, 1, 3, 2, 3}

func replayOps(r *Run, input []byte) error {
	var in opInput
	if err := json.Unmarshal(input, &in); err != nil {
		return err
	}
	quiet()
	g, err := genomeFromText(in.G)
	if err != nil {
		return err
	}
	var g2 *genetics.Genome
	if in.G2 != nil {
		if g2, err = genomeFromText(in.G2); err != nil {
			return err
		}
	}
	env := envFromInput(&in)
	o := &opsGen{r: r, prop: in.Prop}
	r.Rng = rand.New(rand.NewSource(0))
	// force the recorded seed: apply draws its seed from r.Rng, so emulate with a fixed source
	r.Rng = rand.New(&fixedSource{v: in.Seed})
	parent := g
	before := snap(g)
	out := o.apply(in.Op, g, g2, env, in.Opts, false)
	bad := func(key, what string) {
		r.Fail(Failure{Key: key, What: what, Input: in})
	}
	evalOracles(in.Prop, in.Op, parent, before, g2, out, bad)
	return nil
}

type fixedSource struct{ v int64 }

func (f *fixedSource) Int63() int64 { return f.v }
func (f *fixedSource) Seed(int64)   {}

// evalOracles runs the oracle of property prop on one operator application.
// For mutators `parentBefore` is the operand's value before the call (the operand is mutated in place).
func evalOracles(prop string, op opSpec, operand *genetics.Genome, operandBefore gsnap, g2 *genetics.Genome, out opOutcome, bad badf) {
	if out.err != nil {
		if prop == "C01" {
			bad("operator-error-"+op.Kind, "operator failed on a well-formed genome: "+out.err.Error())
		}
		return
	}
	switch prop {
	case "C01":
		if e := wfGenome(out.child); e != nil {
			bad("illformed-after-"+opName(op), "operator produced an ill-formed genome: "+e.Error())
		}
	case "C04":
		if op.Kind == "mate" {
			checkMate(op.Method, operand, g2, float64(op.F1), float64(op.F2), out.child, bad)
			if !operandBefore.eq(snap(operand)) {
				bad("mate-modified-parent", "crossover modified its first parent")
			}
		}
	case "C05":
		if op.Kind == "mut" {
			switch mutKinds[op.Mut] {
			case "add_node":
				checkAddNode(operandBefore, out.child, out.flag, bad)
			case "add_link":
				checkAddLink(operandBefore, out.child, out.flag, bad)
			case "connect_sensors":
				checkConnect(operandBefore, out.child, out.flag, bad)
			case "link_weights", "link_weights_cold":
				checkFrame(operandBefore, out.child, "weights", false, bad)
			case "toggle_enable":
				checkFrame(operandBefore, out.child, "toggle", false, bad)
				checkToggle(operandBefore, out.child, bad)
			case "gene_reenable":
				checkFrame(operandBefore, out.child, "reenable", false, bad)
				checkReenable(operandBefore, out.child, bad)
			case "random_trait":
				checkFrame(operandBefore, out.child, "trait", false, bad)
			case "link_trait":
				checkFrame(operandBefore, out.child, "linktrait", false, bad)
			case "node_trait":
				checkFrame(operandBefore, out.child, "nodetrait", true, bad)
			case "all_nonstructural":
				checkFrame(operandBefore, out.child, "nonstructural", true, bad)
			}
		}
	}
}

func opName(op opSpec) string {
	switch op.Kind {
	case "mut":
		return mutKinds[op.Mut]
	case "mate":
		return []string{"multipoint", "multipoint-avg", "singlepoint"}[op.Method]
	}
	return op.Kind
}
