//go:build verif

package main

import (
	"math/rand"

	"github.com/yaricom/goNEAT/v4/neat"
	"github.com/yaricom/goNEAT/v4/neat/genetics"
	neatmath "github.com/yaricom/goNEAT/v4/neat/math"
	"github.com/yaricom/goNEAT/v4/neat/network"
)

// withLooseModule adds one module whose second output is a fresh hidden node that no connection gene mentions (it is
// attached to the module only): in a crossover such a node reaches the child only through the module bookkeeping
func withLooseModule(r *rand.Rand, g *genetics.Genome) *genetics.Genome {
	c, err := genetics.VDuplicate(g, g.Id)
	if err != nil || len(c.Nodes) < 2 {
		return nil
	}
	maxId, maxInnov := 0, int64(0)
	for _, n := range c.Nodes {
		if n.Id > maxId {
			maxId = n.Id
		}
	}
	for _, x := range c.Genes {
		if x.InnovationNum > maxInnov {
			maxInnov = x.InnovationNum
		}
	}
	loose := network.NewNNode(maxId+2, network.HiddenNeuron)
	if len(c.Traits) > 0 {
		loose.Trait = c.Traits[0]
	}
	nodes := append(append([]*network.NNode{}, c.Nodes...), loose)
	cn := network.NewNNode(maxId+1, network.HiddenNeuron)
	cn.ActivationType = neatmath.MultiplyModuleActivation
	for i := 0; i < 2; i++ {
		src := c.Nodes[r.Intn(len(c.Nodes))]
		cn.Incoming = append(cn.Incoming, network.NewLink(1.0, src, cn, false))
	}
	var dst *network.NNode
	for _, n := range c.Nodes {
		if !n.IsSensor() {
			dst = n
		}
	}
	if dst == nil {
		return nil
	}
	cn.Outgoing = append(cn.Outgoing, network.NewLink(1.0, cn, dst, false), network.NewLink(1.0, cn, loose, false))
	return genetics.NewModularGenome(c.Id, c.Traits, nodes, c.Genes, []*genetics.MIMOControlGene{genetics.NewMIMOGene(cn, maxInnov+1, 0.5, true)})
}

// c17LibraryWork is earlier unrelated work done with the library itself: crossovers of plain genomes with many
// node ids (anything a crossover caches between calls would carry them over) and, at the higher levels, an epoch of
// the parallel executor over a large unrelated population that FAILS in one species (a gene-less organism) while
// another species still has thousands of offspring to produce. When NextEpoch has returned, the work is over: a
// seeded run started right afterwards must not be disturbed by it.
func c17LibraryWork(level, salt int) {
	quiet()
	wide := readPlain(c17WideStart(), 1)
	for i := 0; i < 20*level; i++ {
		a, e1 := genetics.VDuplicate(wide, 1)
		b, e2 := genetics.VDuplicate(wide, 2)
		if e1 != nil || e2 != nil {
			break
		}
		_, _ = genetics.VMate(i%3, a, b, 3, 1.0, 2.0)
	}
	for _, g := range startGenomes() {
		a, e1 := genetics.VDuplicate(g, 1)
		b, e2 := genetics.VDuplicate(g, 2)
		if e1 == nil && e2 == nil {
			_, _ = genetics.VMate(salt%3, a, b, 3, 2.0, 1.0)
		}
	}
	if level < 3 {
		return
	}
	opts := baseOptions()
	size := 4000
	opts.PopSize = size + 1
	opts.CompatThreshold = 1.0e6
	opts.MutateLinkWeightsProb = 1.0
	opts.MutateOnlyProb = 0.25
	opts.EpochExecutorType = neat.EpochExecutorTypeParallel
	pop, err := genetics.NewPopulation(readPlain(c17WideStart(), 1), opts)
	if err != nil || len(pop.Species) != 1 {
		return
	}
	for _, o := range pop.Organisms {
		o.Fitness = 1.0
	}
	start := readPlain(xorStart, 1)
	empty := genetics.NewGenome(size+5, start.Traits, start.Nodes, []*genetics.Gene{})
	org, err := genetics.NewOrganism(1.0, empty, 1)
	if err != nil {
		return
	}
	pop.LastSpecies++
	sp := genetics.NewSpecies(pop.LastSpecies)
	sp.Organisms = append(sp.Organisms, org)
	org.Species = sp
	pop.Species = append(pop.Species, sp)
	pop.Organisms = append(pop.Organisms, org)
	ex := &genetics.ParallelPopulationEpochExecutor{}
	_ = ex.NextEpoch(opts.NeatContext(), 1, pop) // expected to fail: "genome has no genes"
}
