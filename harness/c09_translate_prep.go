package main

// Quota-preparation translator for C09 / C02 (`neatverif translate quotaprep -out <dir>` writes <dir>/QuotaPrep.v).
//
// Parses neat/genetics/population.go, finds `func (p *Population) purgeZeroOffspringSpecies(generation int)` and
// translates its BODY, construct by construct, into
//
//	Definition gen_purge_zero_offspring (pop : qpop) (v_generation : Z) : res qpop
//
// over the view of a population defined in model/QuotaView.v: the Organism and Species structs live in pointer-keyed
// heaps (model/GoHeap.v), Population.Organisms / Population.Species are lists of pointers.  Of an organism the function
// may read Fitness and read/write ExpectedOffspring, of a species read/write ExpectedOffspring and call
// countOffspring (linked to gen/QuotaLoop.v's gen_count_offspring, which reads the ExpectedOffspring of the species'
// Organisms); of the population it may read Organisms and read/assign Species.  Anything else is an error.
//
//   - a field read `x.F` is `gh_get h_T x` (GoPanic on a pointer without a struct) followed by the projection, a field
//     write `x.F = e` is `gh_upd h_T x (fun r => set_F r e)`: a functional update of the heap, which becomes part of the
//     state of every loop / if that writes;
//   - `var b *Species` is an `option Z` (nil = None), `b = sp` is `Some sp`, `b != nil` is go_not_nil, a field access
//     through it first does go_deref (GoPanic on nil);
//   - `for _, x := range <slice of pointers>` is GoHeap.go_for over the pointer list (evaluated once) with the tuple of
//     all enclosing variables and heaps the body assigns as state;
//   - `s := make([]*T, 0)`, `s = append(s, x)`, `p.Species = s`;
//   - `a, b = x.countOffspring(e)`;
//   - `if neat.LogLevel == neat.LogLevelDebug { neat.DebugLog(fmt.Sprintf("...", args...)) }` is skipped, but only when
//     every argument is a numeric local, len(p.<slice>) or a numeric field read through a pointer known to be non-nil
//     (logging then cannot change the state or panic); any other logging statement is an error;
//   - float64 / int locals, constants, arithmetic, comparisons, if/else as in the other translators (exact constant
//     evaluation, no shadowing, Go ints as unbounded integers).

import (
	"bufio"
	"fmt"
	"go/ast"
	"go/constant"
	"go/parser"
	"go/token"
	"math"
	"os"
	"path/filepath"
	"sort"
	"strconv"
	"strings"
)

func init() { translators["quotaprep"] = c09pTranslateQuotaPrep }

type c09pKind int

const (
	c09pFloat c09pKind = iota
	c09pInt
	c09pConst
	c09pBool
	c09pPtr     // pointer known to be non-nil (range variable): a Z term
	c09pPtrVar  // pointer variable: an option Z
	c09pPtrList // slice of pointers: a list Z
	c09pHeap    // the heap of one struct type
	c09pNil
)

func (k c09pKind) String() string {
	return [...]string{"float64", "int", "untyped constant", "bool", "pointer", "pointer variable", "slice of pointers", "heap", "nil"}[k]
}

type c09pVal struct {
	kind    c09pKind
	code    string
	typ     string // struct type of pointer kinds
	cv      constant.Value
	isFloat bool
	src     string
}

type c09pVar struct {
	kind  c09pKind
	typ   string
	coq   string
	depth int
	seq   int
}

type c09pEnv struct {
	vars   map[string]c09pVar
	depth  int
	inLoop bool
}

func (e c09pEnv) with(name string, v c09pVar) c09pEnv {
	m := make(map[string]c09pVar, len(e.vars)+1)
	for k, x := range e.vars {
		m[k] = x
	}
	m[name] = v
	r := e
	r.vars = m
	return r
}
func (e c09pEnv) push() c09pEnv { r := e; r.depth++; return r }
func (e c09pEnv) popTo(outer c09pEnv) c09pEnv {
	m := make(map[string]c09pVar, len(e.vars))
	for k, x := range e.vars {
		if x.depth <= outer.depth {
			m[k] = x
		}
	}
	r := outer
	r.vars = m
	return r
}

// the structs and fields the view knows: Go field -> (kind, projection, setter)
type c09pField struct {
	kind   c09pKind
	proj   string
	setter string // "" = read-only
}

var c09pStructs = map[string]map[string]c09pField{
	"Organism": {
		"Fitness":           {c09pFloat, "qo_Fitness", ""},
		"ExpectedOffspring": {c09pFloat, "qo_ExpectedOffspring", "qo_set_ExpectedOffspring"},
	},
	"Species": {
		"ExpectedOffspring": {c09pInt, "qs_ExpectedOffspring", "qs_set_ExpectedOffspring"},
	},
}

// fields of the receiver: Go field -> element struct, assignable
var c09pRecvFields = map[string]struct {
	typ        string
	assignable bool
}{"Organisms": {"Organism", false}, "Species": {"Species", true}}

func c09pHeapName(typ string) string { return "#" + typ }
func c09pRecvName(f string) string   { return "#." + f }

type c09pError struct{ msg string }

type c09pTr struct {
	fset     *token.FileSet
	src      []byte
	recv     string
	reserved map[string]bool
	pending  []string
	ntemp    int
	nseq     int
	skipped  []string // logging statements skipped, for the header of the generated file
}

func (t *c09pTr) fail(n ast.Node, format string, a ...interface{}) {
	pos := "?"
	if n != nil {
		pos = t.fset.Position(n.Pos()).String()
	}
	panic(c09pError{fmt.Sprintf("%s: in purgeZeroOffspringSpecies: %s", pos, fmt.Sprintf(format, a...))})
}

func (t *c09pTr) text(n ast.Node) string {
	a, b := t.fset.Position(n.Pos()).Offset, t.fset.Position(n.End()).Offset
	if a < 0 || b > len(t.src) || a > b {
		return ""
	}
	return string(t.src[a:b])
}

func (t *c09pTr) temp() string { t.ntemp++; return fmt.Sprintf("p_%d", t.ntemp) }

func (t *c09pTr) takeBinds() string {
	s := strings.Join(t.pending, "")
	t.pending = nil
	return s
}

func (t *c09pTr) constFloat(n ast.Node, v c09pVal) float64 {
	f, _ := constant.Float64Val(constant.ToFloat(v.cv))
	if math.IsInf(f, 0) || math.IsNaN(f) {
		t.fail(n, "constant %s overflows float64", v.src)
	}
	if f == 0 {
		f = 0
	}
	return f
}

func (t *c09pTr) constInt(n ast.Node, v c09pVal) string {
	iv := constant.ToInt(v.cv)
	if iv.Kind() != constant.Int {
		t.fail(n, "constant %s is not an integer", v.src)
	}
	i, ok := constant.Int64Val(iv)
	if !ok {
		t.fail(n, "integer constant %s does not fit int", v.src)
	}
	return fmt.Sprintf("(%d)%%Z", i)
}

func (t *c09pTr) asFloat(n ast.Node, v c09pVal) string {
	switch v.kind {
	case c09pFloat:
		return v.code
	case c09pConst:
		return c18bFloatLit(t.constFloat(n, v), v.src)
	}
	t.fail(n, "expression %q has type %s where a float64 is needed", t.text(n), v.kind)
	return ""
}

func (t *c09pTr) asInt(n ast.Node, v c09pVal) string {
	switch v.kind {
	case c09pInt:
		return v.code
	case c09pConst:
		return t.constInt(n, v)
	}
	t.fail(n, "expression %q has type %s where an int is needed", t.text(n), v.kind)
	return ""
}

func (t *c09pTr) asBool(n ast.Node, v c09pVal) string {
	if v.kind != c09pBool {
		t.fail(n, "expression %q is not a condition", t.text(n))
	}
	return v.code
}

// pointerOf: the (non-nil) pointer an expression of pointer kind denotes, as a Z term; a pointer variable is checked for nil
func (t *c09pTr) pointerOf(n ast.Node, v c09pVal) string {
	switch v.kind {
	case c09pPtr:
		return v.code
	case c09pPtrVar:
		p := t.temp()
		t.pending = append(t.pending, "do "+p+" <- go_deref "+v.code+";\n")
		return p
	}
	t.fail(n, "field access through %q, which is not a pointer to a struct", t.text(n))
	return ""
}

func (t *c09pTr) heapOf(n ast.Node, env c09pEnv, typ string) string {
	h, ok := env.vars[c09pHeapName(typ)]
	if !ok {
		t.fail(n, "no heap for struct %s", typ)
	}
	return h.coq
}

func (t *c09pTr) field(n ast.Node, typ, name string) c09pField {
	f, ok := c09pStructs[typ][name]
	if !ok {
		var known []string
		for k := range c09pStructs[typ] {
			known = append(known, k)
		}
		sort.Strings(known)
		t.fail(n, "field %s of %s is not part of the model's view of this function (only %s)", name, typ, strings.Join(known, ", "))
	}
	return f
}

func (t *c09pTr) expr(e ast.Expr, env c09pEnv) c09pVal {
	switch x := e.(type) {
	case *ast.ParenExpr:
		return t.expr(x.X, env)
	case *ast.BasicLit:
		if x.Kind == token.INT || x.Kind == token.FLOAT {
			cv := constant.MakeFromLiteral(x.Value, x.Kind, 0)
			if cv.Kind() == constant.Unknown {
				t.fail(x, "cannot read numeric literal %s", x.Value)
			}
			return c09pVal{kind: c09pConst, cv: cv, isFloat: x.Kind == token.FLOAT, src: x.Value}
		}
		t.fail(x, "unsupported literal %s", x.Value)
	case *ast.Ident:
		if x.Name == "nil" {
			return c09pVal{kind: c09pNil}
		}
		if v, ok := env.vars[x.Name]; ok {
			return c09pVal{kind: v.kind, code: v.coq, typ: v.typ}
		}
		if x.Name == t.recv {
			t.fail(x, "the receiver %q is used other than as %s.Organisms / %s.Species", x.Name, x.Name, x.Name)
		}
		t.fail(x, "unsupported identifier %q (not a local variable)", x.Name)
	case *ast.SelectorExpr:
		if id, ok := x.X.(*ast.Ident); ok && id.Name == t.recv {
			if v, ok := env.vars[c09pRecvName(x.Sel.Name)]; ok {
				return c09pVal{kind: v.kind, code: v.coq, typ: v.typ}
			}
			t.fail(x, "reads %s; of the population only Organisms and Species are part of the model's view", t.text(x))
		}
		p := t.expr(x.X, env)
		if p.kind != c09pPtr && p.kind != c09pPtrVar {
			t.fail(x, "unsupported selector %q", t.text(x))
		}
		f := t.field(x, p.typ, x.Sel.Name)
		ptr := t.pointerOf(x.X, p)
		r := t.temp()
		t.pending = append(t.pending, "do "+r+" <- gh_get "+t.heapOf(x, env, p.typ)+" "+ptr+";\n")
		return c09pVal{kind: f.kind, code: "(" + f.proj + " " + r + ")"}
	case *ast.UnaryExpr:
		v := t.expr(x.X, env)
		switch x.Op {
		case token.SUB, token.ADD:
			switch v.kind {
			case c09pConst:
				return c09pVal{kind: c09pConst, cv: constant.UnaryOp(x.Op, v.cv, 0), isFloat: v.isFloat, src: t.text(x)}
			case c09pFloat:
				if x.Op == token.ADD {
					return v
				}
				return c09pVal{kind: c09pFloat, code: "(- " + v.code + ")"}
			case c09pInt:
				if x.Op == token.ADD {
					return v
				}
				return c09pVal{kind: c09pInt, code: "(Z.opp " + v.code + ")"}
			}
			t.fail(x, "unary %s on %s", x.Op, v.kind)
		case token.NOT:
			return c09pVal{kind: c09pBool, code: "(negb " + t.asBool(x.X, v) + ")"}
		}
		t.fail(x, "unsupported unary operator %s", x.Op)
	case *ast.BinaryExpr:
		return t.binary(x, env)
	case *ast.CallExpr:
		return t.call(x, env)
	}
	t.fail(e, "unsupported expression %q (%T)", t.text(e), e)
	return c09pVal{}
}

func (t *c09pTr) binary(x *ast.BinaryExpr, env c09pEnv) c09pVal {
	a := t.expr(x.X, env)
	nb := len(t.pending)
	b := t.expr(x.Y, env)
	isArith := x.Op == token.ADD || x.Op == token.SUB || x.Op == token.MUL || x.Op == token.QUO
	isCmp := x.Op == token.LSS || x.Op == token.LEQ || x.Op == token.GTR || x.Op == token.GEQ || x.Op == token.EQL || x.Op == token.NEQ
	switch {
	case x.Op == token.LAND || x.Op == token.LOR:
		if len(t.pending) != nb {
			t.fail(x.Y, "the right operand of %s dereferences a pointer; its panic would depend on short-circuit evaluation; not supported", x.Op)
		}
		f := "andb"
		if x.Op == token.LOR {
			f = "orb"
		}
		return c09pVal{kind: c09pBool, code: "(" + f + " " + t.asBool(x.X, a) + " " + t.asBool(x.Y, b) + ")"}
	case !isArith && !isCmp:
		t.fail(x, "unsupported binary operator %s", x.Op)
	case (a.kind == c09pPtrVar && b.kind == c09pNil) || (a.kind == c09pNil && b.kind == c09pPtrVar):
		v := a
		if v.kind == c09pNil {
			v = b
		}
		switch x.Op {
		case token.NEQ:
			return c09pVal{kind: c09pBool, code: "(go_not_nil " + v.code + ")"}
		case token.EQL:
			return c09pVal{kind: c09pBool, code: "(negb (go_not_nil " + v.code + "))"}
		}
		t.fail(x, "operator %s between a pointer and nil", x.Op)
	case a.kind != c09pFloat && a.kind != c09pInt && a.kind != c09pConst, b.kind != c09pFloat && b.kind != c09pInt && b.kind != c09pConst:
		t.fail(x, "operator %s applied to %s and %s", x.Op, a.kind, b.kind)
	case a.kind == c09pConst && b.kind == c09pConst:
		if isCmp {
			t.fail(x, "comparison of two constants %q is not supported", t.text(x))
		}
		isFloat := a.isFloat || b.isFloat
		op, av, bv := x.Op, a.cv, b.cv
		if isFloat {
			av, bv = constant.ToFloat(av), constant.ToFloat(bv)
		} else if op == token.QUO {
			op = token.QUO_ASSIGN
		}
		if x.Op == token.QUO && constant.Sign(bv) == 0 {
			t.fail(x, "constant division by zero")
		}
		return c09pVal{kind: c09pConst, cv: constant.BinaryOp(av, op, bv), isFloat: isFloat, src: t.text(x)}
	}
	k := a.kind
	if k == c09pConst {
		k = b.kind
	}
	if (a.kind != c09pConst && a.kind != k) || (b.kind != c09pConst && b.kind != k) {
		t.fail(x, "operands of %s have types %s and %s", x.Op, a.kind, b.kind)
	}
	if k == c09pFloat {
		l, r := t.asFloat(x.X, a), t.asFloat(x.Y, b)
		switch x.Op {
		case token.ADD:
			return c09pVal{kind: c09pFloat, code: "(" + l + " + " + r + ")"}
		case token.SUB:
			return c09pVal{kind: c09pFloat, code: "(" + l + " - " + r + ")"}
		case token.MUL:
			return c09pVal{kind: c09pFloat, code: "(" + l + " * " + r + ")"}
		case token.QUO:
			return c09pVal{kind: c09pFloat, code: "(" + l + " / " + r + ")"}
		case token.LSS:
			return c09pVal{kind: c09pBool, code: "(" + l + " <? " + r + ")"}
		case token.LEQ:
			return c09pVal{kind: c09pBool, code: "(" + l + " <=? " + r + ")"}
		case token.GTR:
			return c09pVal{kind: c09pBool, code: "(" + r + " <? " + l + ")"}
		case token.GEQ:
			return c09pVal{kind: c09pBool, code: "(" + r + " <=? " + l + ")"}
		case token.EQL:
			return c09pVal{kind: c09pBool, code: "(" + l + " =? " + r + ")"}
		case token.NEQ:
			return c09pVal{kind: c09pBool, code: "(negb (" + l + " =? " + r + "))"}
		}
	}
	l, r := t.asInt(x.X, a), t.asInt(x.Y, b)
	switch x.Op {
	case token.ADD:
		return c09pVal{kind: c09pInt, code: "(Z.add " + l + " " + r + ")"}
	case token.SUB:
		return c09pVal{kind: c09pInt, code: "(Z.sub " + l + " " + r + ")"}
	case token.MUL:
		return c09pVal{kind: c09pInt, code: "(Z.mul " + l + " " + r + ")"}
	case token.QUO:
		t.fail(x, "int division is not supported")
	case token.LSS:
		return c09pVal{kind: c09pBool, code: "(Z.ltb " + l + " " + r + ")"}
	case token.LEQ:
		return c09pVal{kind: c09pBool, code: "(Z.leb " + l + " " + r + ")"}
	case token.GTR:
		return c09pVal{kind: c09pBool, code: "(Z.ltb " + r + " " + l + ")"}
	case token.GEQ:
		return c09pVal{kind: c09pBool, code: "(Z.leb " + r + " " + l + ")"}
	case token.EQL:
		return c09pVal{kind: c09pBool, code: "(Z.eqb " + l + " " + r + ")"}
	case token.NEQ:
		return c09pVal{kind: c09pBool, code: "(negb (Z.eqb " + l + " " + r + "))"}
	}
	t.fail(x, "unsupported binary operator %s", x.Op)
	return c09pVal{}
}

func (t *c09pTr) call(x *ast.CallExpr, env c09pEnv) c09pVal {
	if x.Ellipsis != token.NoPos {
		t.fail(x, "variadic call")
	}
	if id, ok := x.Fun.(*ast.Ident); ok && len(x.Args) == 1 {
		switch id.Name {
		case "len":
			v := t.expr(x.Args[0], env)
			if v.kind == c09pPtrList {
				return c09pVal{kind: c09pInt, code: "(go_len " + v.code + ")"}
			}
			t.fail(x, "len of %q (only of a slice of pointers)", t.text(x.Args[0]))
		case "float64":
			v := t.expr(x.Args[0], env)
			switch v.kind {
			case c09pFloat:
				return v
			case c09pConst:
				return c09pVal{kind: c09pFloat, code: t.asFloat(x.Args[0], v)}
			case c09pInt:
				return c09pVal{kind: c09pFloat, code: "(f_of_Z " + v.code + ")"}
			}
		case "int":
			v := t.expr(x.Args[0], env)
			switch v.kind {
			case c09pInt:
				return v
			case c09pConst:
				return c09pVal{kind: c09pInt, code: t.constInt(x.Args[0], v)}
			}
		}
	}
	t.fail(x, "unsupported call %q (only len(..), float64(..), int(..); make / append / countOffspring only as the right side of an assignment)", t.text(x))
	return c09pVal{}
}

func (t *c09pTr) declare(id *ast.Ident, v c09pVar, env c09pEnv) c09pEnv {
	if t.reserved[id.Name] || id.Name == t.recv {
		t.fail(id, "declaration of %q hides a name the translator gives a fixed meaning", id.Name)
	}
	if !c18bIdentRe.MatchString(id.Name) {
		t.fail(id, "identifier %q is not plain ASCII", id.Name)
	}
	if _, ok := env.vars[id.Name]; ok {
		t.fail(id, "declaration of %q shadows (or repeats) a variable of an enclosing scope; not supported", id.Name)
	}
	t.nseq++
	v.coq, v.depth, v.seq = "v_"+id.Name, env.depth, t.nseq
	return env.with(id.Name, v)
}

// ptrType: *T for a struct T of the view
func (t *c09pTr) ptrType(e ast.Expr) (string, bool) {
	st, ok := e.(*ast.StarExpr)
	if !ok {
		return "", false
	}
	id, ok := st.X.(*ast.Ident)
	if !ok {
		return "", false
	}
	_, known := c09pStructs[id.Name]
	return id.Name, known
}

// coerce: the value as a term for a variable of the given kind / struct
func (t *c09pTr) coerce(n ast.Node, v c09pVal, kind c09pKind, typ string) string {
	switch kind {
	case c09pFloat:
		return t.asFloat(n, v)
	case c09pInt:
		return t.asInt(n, v)
	case c09pPtrVar:
		switch {
		case v.kind == c09pNil:
			return "(None : option Z)"
		case v.kind == c09pPtr && v.typ == typ:
			return "(Some " + v.code + ")"
		case v.kind == c09pPtrVar && v.typ == typ:
			return v.code
		}
	case c09pPtrList:
		if v.kind == c09pPtrList && v.typ == typ {
			return v.code
		}
	}
	t.fail(n, "expression %q (%s) cannot be assigned to a variable of type %s %s", t.text(n), v.kind, kind, typ)
	return ""
}

func c09pParen(s string) string {
	if strings.HasPrefix(s, "let ") || strings.HasPrefix(s, "if ") || strings.HasPrefix(s, "do ") {
		return "(" + s + ")"
	}
	return s
}

func c09pTuple(names []string) (tuple, pat string) {
	switch len(names) {
	case 0:
		return "tt", "_"
	case 1:
		return names[0], names[0]
	}
	tuple = "(" + strings.Join(names, ", ") + ")"
	return tuple, "'" + tuple
}

// assignedIn: the variables (locals, heaps, receiver fields) of env assigned inside the nodes, in order of first appearance
func (t *c09pTr) assignedIn(env c09pEnv, nodes ...ast.Node) []string {
	var names []string
	seen := map[string]bool{}
	addName := func(n string) {
		if _, ok := env.vars[n]; ok && !seen[n] {
			seen[n] = true
			names = append(names, n)
		}
	}
	// pointer variables declared anywhere in the function are resolved by name through this table
	resolve := func(e ast.Expr, local map[string]string) {
		if x, ok := e.(*ast.SelectorExpr); ok {
			if id, ok := x.X.(*ast.Ident); ok && id.Name != t.recv {
				if v, ok := env.vars[id.Name]; ok && (v.kind == c09pPtr || v.kind == c09pPtrVar) {
					addName(c09pHeapName(v.typ))
				} else if typ, ok := local[id.Name]; ok {
					addName(c09pHeapName(typ))
				} else {
					// unknown pointer: assume every heap may be written (sound over-approximation of the loop state)
					for typ := range c09pStructs {
						addName(c09pHeapName(typ))
					}
				}
			}
		}
	}
	for _, n := range nodes {
		if n == nil {
			continue
		}
		// range variables and pointer variables declared inside the nodes
		local := map[string]string{}
		ast.Inspect(n, func(n ast.Node) bool {
			switch s := n.(type) {
			case *ast.RangeStmt:
				if id, ok := s.Value.(*ast.Ident); ok {
					if typ, ok := t.rangeElemType(s.X, env, local); ok {
						local[id.Name] = typ
					}
				}
			case *ast.DeclStmt:
				if gd, ok := s.Decl.(*ast.GenDecl); ok {
					for _, sp := range gd.Specs {
						if vs, ok := sp.(*ast.ValueSpec); ok && vs.Type != nil {
							if typ, ok := t.ptrType(vs.Type); ok {
								for _, nm := range vs.Names {
									local[nm.Name] = typ
								}
							}
						}
					}
				}
			}
			return true
		})
		ast.Inspect(n, func(n ast.Node) bool {
			switch s := n.(type) {
			case *ast.AssignStmt:
				for _, l := range s.Lhs {
					switch x := l.(type) {
					case *ast.Ident:
						addName(x.Name)
					case *ast.SelectorExpr:
						if id, ok := x.X.(*ast.Ident); ok && id.Name == t.recv {
							addName(c09pRecvName(x.Sel.Name))
						} else {
							resolve(x, local)
						}
					}
				}
			case *ast.IncDecStmt:
				switch x := s.X.(type) {
				case *ast.Ident:
					addName(x.Name)
				case *ast.SelectorExpr:
					resolve(x, local)
				}
			}
			return true
		})
	}
	return names
}

// rangeElemType: the struct type of the elements of a ranged-over expression, if it can be told syntactically
func (t *c09pTr) rangeElemType(e ast.Expr, env c09pEnv, local map[string]string) (string, bool) {
	switch x := e.(type) {
	case *ast.SelectorExpr:
		if id, ok := x.X.(*ast.Ident); ok && id.Name == t.recv {
			if f, ok := c09pRecvFields[x.Sel.Name]; ok {
				return f.typ, true
			}
		}
	case *ast.Ident:
		if v, ok := env.vars[x.Name]; ok && v.kind == c09pPtrList {
			return v.typ, true
		}
	}
	return "", false
}

func (t *c09pTr) coqNames(env c09pEnv, names []string) []string {
	out := make([]string, len(names))
	for i, n := range names {
		out[i] = env.vars[n].coq
	}
	return out
}

// isDebugLog recognises `if neat.LogLevel == neat.LogLevelDebug { neat.DebugLog(fmt.Sprintf("..", args..)) }` whose arguments
// cannot change the state or panic
func (t *c09pTr) isDebugLog(s *ast.IfStmt, env c09pEnv) bool {
	isNeat := func(e ast.Expr, name string) bool {
		sel, ok := e.(*ast.SelectorExpr)
		return ok && c18bIsIdent(sel.X, "neat") && sel.Sel.Name == name
	}
	cond, ok := s.Cond.(*ast.BinaryExpr)
	if !ok || cond.Op != token.EQL || s.Init != nil {
		return false
	}
	if !(isNeat(cond.X, "LogLevel") && isNeat(cond.Y, "LogLevelDebug")) && !(isNeat(cond.Y, "LogLevel") && isNeat(cond.X, "LogLevelDebug")) {
		return false
	}
	// from here on it IS a logging statement: anything unexpected is an error, not a fall-back to translation
	if s.Else != nil || len(s.Body.List) != 1 {
		t.fail(s, "logging block with an else branch or more than one statement")
	}
	es, ok := s.Body.List[0].(*ast.ExprStmt)
	if !ok {
		t.fail(s.Body.List[0], "statement other than a call of neat.DebugLog inside a logging block")
	}
	call, ok := es.X.(*ast.CallExpr)
	if !ok || !isNeat(call.Fun, "DebugLog") || len(call.Args) != 1 {
		t.fail(es, "statement other than a call of neat.DebugLog(<message>) inside a logging block")
	}
	var args []ast.Expr
	switch m := call.Args[0].(type) {
	case *ast.BasicLit:
		if m.Kind != token.STRING {
			t.fail(m, "logging message is not a string")
		}
	case *ast.CallExpr:
		sel, ok := m.Fun.(*ast.SelectorExpr)
		if !ok || !c18bIsIdent(sel.X, "fmt") || sel.Sel.Name != "Sprintf" || len(m.Args) == 0 {
			t.fail(m, "logging message is computed by %q; only fmt.Sprintf is accepted", t.text(m.Fun))
		}
		if lit, ok := m.Args[0].(*ast.BasicLit); !ok || lit.Kind != token.STRING {
			t.fail(m.Args[0], "format of the logging message is not a string literal")
		}
		args = m.Args[1:]
	default:
		t.fail(call.Args[0], "unsupported logging message %q", t.text(call.Args[0]))
	}
	for _, a := range args {
		if !t.logSafe(a, env) {
			t.fail(a, "argument %q of a logging statement is not a numeric local, len(%s.<slice>) or a numeric field of a non-nil pointer; "+
				"the statement cannot be skipped safely", t.text(a), t.recv)
		}
	}
	t.skipped = append(t.skipped, fmt.Sprintf("line %d", t.fset.Position(s.Pos()).Line))
	return true
}

func (t *c09pTr) logSafe(e ast.Expr, env c09pEnv) bool {
	switch x := e.(type) {
	case *ast.ParenExpr:
		return t.logSafe(x.X, env)
	case *ast.BasicLit:
		return true
	case *ast.Ident:
		v, ok := env.vars[x.Name]
		return ok && (v.kind == c09pFloat || v.kind == c09pInt)
	case *ast.CallExpr:
		if id, ok := x.Fun.(*ast.Ident); ok && id.Name == "len" && len(x.Args) == 1 {
			if sel, ok := x.Args[0].(*ast.SelectorExpr); ok && c18bIsIdent(sel.X, t.recv) {
				_, ok := c09pRecvFields[sel.Sel.Name]
				return ok
			}
			if id, ok := x.Args[0].(*ast.Ident); ok {
				v, ok := env.vars[id.Name]
				return ok && v.kind == c09pPtrList
			}
		}
		return false
	case *ast.SelectorExpr:
		if id, ok := x.X.(*ast.Ident); ok {
			if v, ok := env.vars[id.Name]; ok && v.kind == c09pPtr {
				f, ok := c09pStructs[v.typ][x.Sel.Name]
				return ok && (f.kind == c09pFloat || f.kind == c09pInt)
			}
		}
		return false
	case *ast.BinaryExpr:
		switch x.Op {
		case token.ADD, token.SUB, token.MUL:
			return t.logSafe(x.X, env) && t.logSafe(x.Y, env)
		}
	}
	return false
}

func (t *c09pTr) stmts(list []ast.Stmt, env c09pEnv, k func(c09pEnv) string) string {
	if len(list) == 0 {
		return k(env)
	}
	rest := func(e c09pEnv) string { return t.stmts(list[1:], e, k) }
	switch s := list[0].(type) {
	case *ast.EmptyStmt:
		return rest(env)
	case *ast.BlockStmt:
		return t.stmts(s.List, env.push(), func(inner c09pEnv) string { return rest(inner.popTo(env)) })
	case *ast.IfStmt:
		if t.isDebugLog(s, env) {
			return rest(env)
		}
		if s.Init != nil {
			t.fail(s.Init, "if with an init statement is not supported")
		}
		c := t.asBool(s.Cond, t.expr(s.Cond, env))
		pre := t.takeBinds()
		after := func(inner c09pEnv) string { return rest(inner.popTo(env)) }
		join := ""
		if len(list) > 1 {
			vars := t.assignedIn(env, s)
			tuple, pat := c09pTuple(t.coqNames(env, vars))
			after = func(c09pEnv) string { return "Ok " + tuple }
			join = "let " + pat + " := jp in\n"
		}
		thenT := c09pParen(t.stmts(s.Body.List, env.push(), after))
		var elseT string
		switch el := s.Else.(type) {
		case nil:
			elseT = after(env)
		case *ast.BlockStmt:
			elseT = t.stmts(el.List, env.push(), after)
		case *ast.IfStmt:
			elseT = t.stmts([]ast.Stmt{el}, env, after)
		default:
			t.fail(s.Else, "unsupported else branch")
		}
		var ifT string
		if strings.HasPrefix(elseT, "if ") {
			ifT = "if " + c + " then\n" + c18bIndent(thenT) + "\nelse " + elseT
		} else {
			ifT = "if " + c + " then\n" + c18bIndent(thenT) + "\nelse\n" + c18bIndent(c09pParen(elseT))
		}
		if join != "" {
			return pre + "do jp <-\n" + c18bIndent("("+ifT+")") + ";\n" + join + rest(env)
		}
		return pre + ifT
	case *ast.DeclStmt:
		gd, ok := s.Decl.(*ast.GenDecl)
		if !ok || gd.Tok != token.VAR {
			t.fail(s, "unsupported declaration (only `var x T [= e]`)")
		}
		out := ""
		cur := env
		for _, sp := range gd.Specs {
			vs := sp.(*ast.ValueSpec)
			if vs.Type == nil {
				t.fail(vs, "var without a type is not supported")
			}
			var nv c09pVar
			var zero string
			switch {
			case c18bIsIdent(vs.Type, "float64"):
				nv, zero = c09pVar{kind: c09pFloat}, c18bFloatLit(0, "")
			case c18bIsIdent(vs.Type, "int"):
				nv, zero = c09pVar{kind: c09pInt}, "(0)%Z"
			default:
				typ, ok := t.ptrType(vs.Type)
				if !ok {
					t.fail(vs.Type, "local variable of type %q (only float64, int, *Organism, *Species)", t.text(vs.Type))
				}
				nv, zero = c09pVar{kind: c09pPtrVar, typ: typ}, "(None : option Z)"
			}
			if len(vs.Values) != 0 && len(vs.Values) != len(vs.Names) {
				t.fail(vs, "var with %d names and %d values", len(vs.Names), len(vs.Values))
			}
			vals := make([]string, len(vs.Names))
			for i := range vs.Names {
				if len(vs.Values) == 0 {
					vals[i] = zero
					continue
				}
				vals[i] = t.coerce(vs.Values[i], t.expr(vs.Values[i], env), nv.kind, nv.typ)
			}
			out += t.takeBinds()
			for i, n := range vs.Names {
				if n.Name == "_" {
					continue
				}
				cur = t.declare(n, nv, cur)
				out += "let " + cur.vars[n.Name].coq + " := " + vals[i] + " in\n"
			}
		}
		return out + rest(cur)
	case *ast.IncDecStmt:
		one := &ast.BasicLit{Kind: token.INT, Value: "1", ValuePos: s.Pos()}
		tok := token.ADD_ASSIGN
		if s.Tok == token.DEC {
			tok = token.SUB_ASSIGN
		}
		out, cur := t.assign(&ast.AssignStmt{Lhs: []ast.Expr{s.X}, Tok: tok, TokPos: s.Pos(), Rhs: []ast.Expr{one}}, env)
		return out + rest(cur)
	case *ast.AssignStmt:
		out, cur := t.assign(s, env)
		return out + rest(cur)
	case *ast.RangeStmt:
		return t.rangeLoop(s, env, rest)
	case *ast.ReturnStmt:
		t.fail(s, "return is not supported (the function has no result and must run to its end)")
	case *ast.ExprStmt:
		t.fail(s, "unsupported statement %q (a call whose effect the model does not know; logging must be guarded by neat.LogLevel == neat.LogLevelDebug)", t.text(s))
	}
	t.fail(list[0], "unsupported statement %T (supported: var, :=, =, op=, ++/--, if/else, block, `for _, x := range <pointers>`, guarded debug logging)", list[0])
	return ""
}

// target describes one assignable left-hand side
type c09pTarget struct {
	kind   c09pKind
	typ    string
	emit   func(val string) string // the binding(s) that store val
	cur    func() string           // the current value (may add binds), for op=
	fresh  *ast.Ident              // a variable declared by :=
	isVoid bool
}

func (t *c09pTr) target(l ast.Expr, env c09pEnv, define bool) c09pTarget {
	switch x := l.(type) {
	case *ast.Ident:
		if x.Name == "_" {
			return c09pTarget{isVoid: true}
		}
		v, ok := env.vars[x.Name]
		if define && !(ok && v.depth == env.depth) {
			return c09pTarget{fresh: x}
		}
		if !ok {
			t.fail(x, "assignment to undeclared variable %q", x.Name)
		}
		switch v.kind {
		case c09pFloat, c09pInt, c09pPtrVar, c09pPtrList:
		default:
			t.fail(x, "assignment to %q (%s)", x.Name, v.kind)
		}
		return c09pTarget{kind: v.kind, typ: v.typ,
			emit: func(val string) string { return "let " + v.coq + " := " + val + " in\n" },
			cur:  func() string { return v.coq }}
	case *ast.SelectorExpr:
		if id, ok := x.X.(*ast.Ident); ok && id.Name == t.recv {
			f, ok := c09pRecvFields[x.Sel.Name]
			if !ok || !f.assignable {
				t.fail(x, "assignment to %s; of the population only Species may be assigned", t.text(x))
			}
			v := env.vars[c09pRecvName(x.Sel.Name)]
			return c09pTarget{kind: c09pPtrList, typ: f.typ,
				emit: func(val string) string { return "let " + v.coq + " := " + val + " in\n" },
				cur:  func() string { return v.coq }}
		}
		p := t.expr(x.X, env)
		if p.kind != c09pPtr && p.kind != c09pPtrVar {
			t.fail(x, "assignment to %q: not a field of a struct behind a pointer", t.text(x))
		}
		f := t.field(x, p.typ, x.Sel.Name)
		if f.setter == "" {
			t.fail(x, "assignment to %s.%s, which the model treats as read-only in this function", p.typ, x.Sel.Name)
		}
		heap := t.heapOf(x, env, p.typ)
		ptr := t.pointerOf(x.X, p)
		return c09pTarget{kind: f.kind,
			emit: func(val string) string {
				return "do " + heap + " <- gh_upd " + heap + " " + ptr + " (fun r => " + f.setter + " r " + val + ");\n"
			},
			cur: func() string {
				r := t.temp()
				t.pending = append(t.pending, "do "+r+" <- gh_get "+heap+" "+ptr+";\n")
				return "(" + f.proj + " " + r + ")"
			}}
	}
	t.fail(l, "unsupported assignment target %q", t.text(l))
	return c09pTarget{}
}

func (t *c09pTr) assign(s *ast.AssignStmt, env c09pEnv) (string, c09pEnv) {
	define := s.Tok == token.DEFINE
	// the two-valued call  a, b = x.countOffspring(e)
	if len(s.Lhs) == 2 && len(s.Rhs) == 1 {
		call, ok := s.Rhs[0].(*ast.CallExpr)
		if ok {
			if sel, ok := call.Fun.(*ast.SelectorExpr); ok && sel.Sel.Name == "countOffspring" && len(call.Args) == 1 && (s.Tok == token.ASSIGN || define) {
				p := t.expr(sel.X, env)
				if (p.kind != c09pPtr && p.kind != c09pPtrVar) || p.typ != "Species" {
					t.fail(sel.X, "countOffspring called on %q, which is not a *Species", t.text(sel.X))
				}
				ptr := t.pointerOf(sel.X, p)
				arg := t.asFloat(call.Args[0], t.expr(call.Args[0], env))
				r, ex, res := t.temp(), t.temp(), t.temp()
				t.pending = append(t.pending, "do "+r+" <- gh_get "+t.heapOf(sel, env, "Species")+" "+ptr+";\n")
				t.pending = append(t.pending, "do "+ex+" <- qs_member_expected "+t.heapOf(sel, env, "Organism")+" "+r+";\n")
				t.pending = append(t.pending, "let "+res+" := gen_count_offspring "+ex+" "+arg+" in\n")
				t0, t1 := t.target(s.Lhs[0], env, define), t.target(s.Lhs[1], env, define)
				out := t.takeBinds()
				cur := env
				for i, tg := range []c09pTarget{t0, t1} {
					val, kind := "(fst "+res+")", c09pInt
					if i == 1 {
						val, kind = "(snd "+res+")", c09pFloat
					}
					switch {
					case tg.isVoid:
					case tg.fresh != nil:
						cur = t.declare(tg.fresh, c09pVar{kind: kind}, cur)
						out += "let " + cur.vars[tg.fresh.Name].coq + " := " + val + " in\n"
					case tg.kind != kind:
						t.fail(s.Lhs[i], "result %d of countOffspring is a %s, the target a %s", i+1, kind, tg.kind)
					default:
						out += tg.emit(val)
					}
				}
				return out, cur
			}
		}
	}
	if len(s.Lhs) != len(s.Rhs) {
		t.fail(s, "assignment with %d targets and %d values", len(s.Lhs), len(s.Rhs))
	}
	if len(s.Lhs) > 1 {
		lhs := map[string]bool{}
		for _, l := range s.Lhs {
			if id, ok := l.(*ast.Ident); ok && id.Name != "_" {
				lhs[id.Name] = true
			} else if !ok {
				t.fail(l, "parallel assignment to a field is not supported")
			}
		}
		for _, r := range s.Rhs {
			if c18bMentions(r, lhs) {
				t.fail(r, "right-hand side of a parallel assignment mentions a variable assigned by it; not supported")
			}
		}
	}
	out := ""
	cur := env
	type pendingStore struct {
		tg  c09pTarget
		val string
		rv  c09pVal
		n   ast.Expr
	}
	var stores []pendingStore
	for i, l := range s.Lhs {
		tg := t.target(l, env, define)
		r := s.Rhs[i]
		switch s.Tok {
		case token.DEFINE, token.ASSIGN:
			// make([]*T, 0) and append(s, x)
			if call, ok := r.(*ast.CallExpr); ok {
				if id, ok := call.Fun.(*ast.Ident); ok && id.Name == "make" {
					at, isArr := call.Args[0].(*ast.ArrayType)
					if len(call.Args) != 2 || !isArr || at.Len != nil {
						t.fail(r, "unsupported make (only make([]*T, 0))")
					}
					typ, ok := t.ptrType(at.Elt)
					if !ok {
						t.fail(r, "unsupported make (only make([]*T, 0) for a struct T of the view)")
					}
					if n := t.expr(call.Args[1], env); n.kind != c09pConst || t.constInt(call.Args[1], n) != "(0)%Z" {
						t.fail(call.Args[1], "make with a length other than the constant 0")
					}
					stores = append(stores, pendingStore{tg, "([] : list Z)", c09pVal{kind: c09pPtrList, typ: typ}, r})
					continue
				}
				if id, ok := call.Fun.(*ast.Ident); ok && id.Name == "append" {
					if len(call.Args) != 2 || call.Ellipsis != token.NoPos {
						t.fail(r, "unsupported append (only append(s, x))")
					}
					sl := t.expr(call.Args[0], env)
					el := t.expr(call.Args[1], env)
					if sl.kind != c09pPtrList || el.kind != c09pPtr || el.typ != sl.typ {
						t.fail(r, "unsupported append (only a non-nil pointer to a slice of pointers of the same struct)")
					}
					if lid, ok := l.(*ast.Ident); !ok || !c18bIsIdent(call.Args[0], lid.Name) {
						t.fail(r, "append must be assigned to the slice it appends to (s = append(s, x)): aliasing of slices is not modelled")
					}
					stores = append(stores, pendingStore{tg, "(" + sl.code + " ++ [" + el.code + "])", c09pVal{kind: c09pPtrList, typ: sl.typ}, r})
					continue
				}
			}
			rv := t.expr(r, env)
			stores = append(stores, pendingStore{tg, "", rv, r})
		case token.ADD_ASSIGN, token.SUB_ASSIGN, token.MUL_ASSIGN, token.QUO_ASSIGN:
			if len(s.Lhs) != 1 || tg.fresh != nil || tg.isVoid {
				t.fail(s, "unsupported assignment operator %s here", s.Tok)
			}
			curv := tg.cur()
			rv := t.expr(r, env)
			var val string
			switch tg.kind {
			case c09pFloat:
				sym := map[token.Token]string{token.ADD_ASSIGN: "+", token.SUB_ASSIGN: "-", token.MUL_ASSIGN: "*", token.QUO_ASSIGN: "/"}[s.Tok]
				val = "(" + curv + " " + sym + " " + t.asFloat(r, rv) + ")"
			case c09pInt:
				fn, ok := map[token.Token]string{token.ADD_ASSIGN: "Z.add", token.SUB_ASSIGN: "Z.sub", token.MUL_ASSIGN: "Z.mul"}[s.Tok]
				if !ok {
					t.fail(s, "int division is not supported")
				}
				val = "(" + fn + " " + curv + " " + t.asInt(r, rv) + ")"
			default:
				t.fail(s, "%s on a %s", s.Tok, tg.kind)
			}
			stores = append(stores, pendingStore{tg, val, c09pVal{kind: tg.kind}, r})
		default:
			t.fail(s, "unsupported assignment operator %s", s.Tok)
		}
	}
	out += t.takeBinds()
	fresh := 0
	for _, st := range stores {
		tg := st.tg
		switch {
		case tg.isVoid:
			continue
		case tg.fresh != nil:
			var nv c09pVar
			switch st.rv.kind {
			case c09pFloat, c09pInt:
				nv = c09pVar{kind: st.rv.kind}
			case c09pConst:
				nv = c09pVar{kind: c09pInt}
				if st.rv.isFloat {
					nv.kind = c09pFloat
				}
			case c09pPtrList:
				nv = c09pVar{kind: c09pPtrList, typ: st.rv.typ}
			case c09pPtr, c09pPtrVar:
				nv = c09pVar{kind: c09pPtrVar, typ: st.rv.typ}
			default:
				t.fail(st.n, "a local variable cannot hold %q (%s)", t.text(st.n), st.rv.kind)
			}
			val := st.val
			if val == "" {
				val = t.coerce(st.n, st.rv, nv.kind, nv.typ)
			}
			cur = t.declare(tg.fresh, nv, cur)
			out += "let " + cur.vars[tg.fresh.Name].coq + " := " + val + " in\n"
			fresh++
		default:
			val := st.val
			if val == "" {
				val = t.coerce(st.n, st.rv, tg.kind, tg.typ)
			} else if st.rv.kind == c09pPtrList && (tg.kind != c09pPtrList || tg.typ != st.rv.typ) {
				t.fail(st.n, "a slice of *%s cannot be assigned here", st.rv.typ)
			}
			out += tg.emit(val)
		}
	}
	if define && fresh == 0 {
		t.fail(s, "no new variable on the left side of :=")
	}
	return out, cur
}

func (t *c09pTr) rangeLoop(s *ast.RangeStmt, env c09pEnv, rest func(c09pEnv) string) string {
	if env.inLoop {
		t.fail(s, "nested loop is not supported")
	}
	if s.Key != nil {
		if id, ok := s.Key.(*ast.Ident); !ok || id.Name != "_" {
			t.fail(s.Key, "range loop that binds the index is not supported (only `for _, x := range <pointers>`)")
		}
	}
	if s.Tok != token.DEFINE || s.Value == nil {
		t.fail(s, "range loop must declare its element variable with :=")
	}
	id, ok := s.Value.(*ast.Ident)
	if !ok || id.Name == "_" {
		t.fail(s.Value, "unsupported range variable")
	}
	sl := t.expr(s.X, env)
	if sl.kind != c09pPtrList {
		t.fail(s.X, "range over %q, which is not a slice of pointers to structs of the view", t.text(s.X))
	}
	if b := t.takeBinds(); b != "" {
		t.fail(s.X, "range expression with a dereference is not supported")
	}
	ast.Inspect(s.Body, func(n ast.Node) bool {
		switch b := n.(type) {
		case *ast.BranchStmt:
			t.fail(b, "%s inside a range loop is not supported", b.Tok)
		case *ast.ReturnStmt:
			t.fail(b, "return inside a range loop is not supported")
		}
		return true
	})
	state := t.assignedIn(env, s)
	if len(state) == 0 {
		t.fail(s, "range loop assigns nothing (no variable, no field)")
	}
	tuple, pat := c09pTuple(t.coqNames(env, state))
	inner := env.push()
	inner.inLoop = true
	inner = t.declare(id, c09pVar{kind: c09pPtr, typ: sl.typ}, inner)
	body := t.stmts(s.Body.List, inner.push(), func(c09pEnv) string { return "Ok " + tuple })
	out := "do st <- go_for " + sl.code + " (fun " + pat + " " + inner.vars[id.Name].coq + " =>\n" + c18bIndent(c18bIndent(body)) + ")\n    " + tuple + ";\n"
	out += "let " + pat + " := st in\n"
	return out + rest(env)
}

// c09pCheckTypes: the struct fields the view relies on have the types the view gives them
func c09pCheckTypes(dir string) error {
	fset := token.NewFileSet()
	structs := map[string]*ast.StructType{}
	ents, err := os.ReadDir(dir)
	if err != nil {
		return err
	}
	for _, ent := range ents {
		n := ent.Name()
		if ent.IsDir() || !strings.HasSuffix(n, ".go") || strings.HasSuffix(n, "_test.go") {
			continue
		}
		f, err := parser.ParseFile(fset, filepath.Join(dir, n), nil, 0)
		if err != nil {
			return err
		}
		for _, d := range f.Decls {
			if gd, ok := d.(*ast.GenDecl); ok && gd.Tok == token.TYPE {
				for _, sp := range gd.Specs {
					ts := sp.(*ast.TypeSpec)
					if st, ok := ts.Type.(*ast.StructType); ok {
						structs[ts.Name.Name] = st
					}
				}
			}
		}
	}
	field := func(st *ast.StructType, name string) ast.Expr {
		if st == nil {
			return nil
		}
		for _, f := range st.Fields.List {
			for _, n := range f.Names {
				if n.Name == name {
					return f.Type
				}
			}
		}
		return nil
	}
	isPtrSlice := func(e ast.Expr, typ string) bool {
		at, ok := e.(*ast.ArrayType)
		if !ok || at.Len != nil {
			return false
		}
		st, ok := at.Elt.(*ast.StarExpr)
		return ok && c18bIsIdent(st.X, typ)
	}
	want := []struct{ st, f, ty string }{{"Organism", "Fitness", "float64"}, {"Organism", "ExpectedOffspring", "float64"}, {"Species", "ExpectedOffspring", "int"}}
	for _, w := range want {
		if ft := field(structs[w.st], w.f); ft == nil || !c18bIsIdent(ft, w.ty) {
			return fmt.Errorf("neat/genetics: %s.%s is not a %s field", w.st, w.f, w.ty)
		}
	}
	if !isPtrSlice(field(structs["Population"], "Organisms"), "Organism") || !isPtrSlice(field(structs["Population"], "Species"), "Species") {
		return fmt.Errorf("neat/genetics: Population.Organisms / Population.Species are not []*Organism / []*Species")
	}
	return nil
}

func c09pTranslateQuotaPrep(outDir string) (err error) {
	dir := filepath.Join(repoRoot(), "neat", "genetics")
	path := filepath.Join(dir, "population.go")
	src, err := os.ReadFile(path)
	if err != nil {
		return err
	}
	fset := token.NewFileSet()
	file, err := parser.ParseFile(fset, path, src, 0)
	if err != nil {
		return err
	}
	for _, im := range file.Imports {
		p, _ := strconv.Unquote(im.Path.Value)
		if im.Name != nil && (im.Name.Name == "fmt" && p != "fmt" || im.Name.Name == "neat" && !strings.HasSuffix(p, "/neat")) {
			return fmt.Errorf("%s: the name %s is bound to package %q", fset.Position(im.Pos()), im.Name.Name, p)
		}
	}
	var fd *ast.FuncDecl
	for _, d := range file.Decls {
		f, ok := d.(*ast.FuncDecl)
		if !ok || f.Name.Name != "purgeZeroOffspringSpecies" || f.Recv == nil || len(f.Recv.List) != 1 {
			continue
		}
		st, ok := f.Recv.List[0].Type.(*ast.StarExpr)
		if !ok || !c18bIsIdent(st.X, "Population") {
			continue
		}
		if fd != nil {
			return fmt.Errorf("%s: two methods Population.purgeZeroOffspringSpecies", fset.Position(f.Pos()))
		}
		fd = f
	}
	if fd == nil {
		return fmt.Errorf("%s: method Population.purgeZeroOffspringSpecies not found", path)
	}
	if err := c09pCheckTypes(dir); err != nil {
		return err
	}
	// the callee must be the method the quotaloop translator translates
	if _, err := os.Stat(filepath.Join(dir, "species.go")); err != nil {
		return err
	}
	t := &c09pTr{fset: fset, src: src, reserved: map[string]bool{"math": true, "fmt": true, "neat": true, "len": true, "make": true, "append": true,
		"float64": true, "int": true, "true": true, "false": true, "nil": true, "iota": true}}
	defer func() {
		if p := recover(); p != nil {
			if e, ok := p.(c09pError); ok {
				err = fmt.Errorf("%s", e.msg)
				return
			}
			panic(p)
		}
	}()
	if fd.Body == nil {
		t.fail(fd, "method without a body")
	}
	if len(fd.Recv.List[0].Names) != 1 || fd.Recv.List[0].Names[0].Name == "_" {
		t.fail(fd, "the receiver has no name")
	}
	t.recv = fd.Recv.List[0].Names[0].Name
	ft := fd.Type
	if ft.Results != nil && len(ft.Results.List) != 0 {
		t.fail(ft, "the method has results; the model's function only changes the population")
	}
	if ft.Params == nil || len(ft.Params.List) != 1 || len(ft.Params.List[0].Names) != 1 || !c18bIsIdent(ft.Params.List[0].Type, "int") {
		t.fail(ft, "signature is not purgeZeroOffspringSpecies(generation int)")
	}
	env := c09pEnv{vars: map[string]c09pVar{}}
	t.nseq++
	env = env.with(c09pHeapName("Organism"), c09pVar{kind: c09pHeap, typ: "Organism", coq: "h_Organism", seq: t.nseq})
	t.nseq++
	env = env.with(c09pHeapName("Species"), c09pVar{kind: c09pHeap, typ: "Species", coq: "h_Species", seq: t.nseq})
	t.nseq++
	env = env.with(c09pRecvName("Organisms"), c09pVar{kind: c09pPtrList, typ: "Organism", coq: "f_Organisms", seq: t.nseq})
	t.nseq++
	env = env.with(c09pRecvName("Species"), c09pVar{kind: c09pPtrList, typ: "Species", coq: "f_Species", seq: t.nseq})
	param := ft.Params.List[0].Names[0]
	env = t.declare(param, c09pVar{kind: c09pInt}, env)
	term := t.stmts(fd.Body.List, env.push(), func(c09pEnv) string {
		return "Ok {| qp_organisms := h_Organism; qp_species := h_Species; qp_Organisms := f_Organisms; qp_Species := f_Species |}"
	})

	if err = os.MkdirAll(outDir, 0o755); err != nil {
		return err
	}
	tmp := filepath.Join(outDir, "QuotaPrep.v.tmp")
	out, err := os.Create(tmp)
	if err != nil {
		return err
	}
	w := bufio.NewWriter(out)
	fmt.Fprintf(w, "(* GENERATED by `neatverif translate quotaprep` from neat/genetics/population.go -- do not edit.\n")
	fmt.Fprintf(w, "   The body of Population.purgeZeroOffspringSpecies translated construct by construct\n")
	fmt.Fprintf(w, "   (harness/c09_translate_prep.go) over the view of model/QuotaView.v: h_Organism / h_Species are the heaps of the\n")
	fmt.Fprintf(w, "   Organism / Species structs (pointer -> struct), f_Organisms / f_Species are p.Organisms / p.Species, v_<name> is\n")
	fmt.Fprintf(w, "   the Go variable <name>, p_<n> a temporary.  x.F is gh_get (a panic value for a pointer without a struct), x.F = e\n")
	fmt.Fprintf(w, "   is gh_upd, a pointer variable is an option (nil = None), a range loop is go_for over the pointer list with the\n")
	fmt.Fprintf(w, "   tuple of the variables and heaps it assigns as state, sp.countOffspring is gen/QuotaLoop.v's gen_count_offspring.\n")
	fmt.Fprintf(w, "   Debug-logging statements skipped (arguments checked to be free of effects): %s.\n", strings.Join(t.skipped, ", "))
	fmt.Fprintf(w, "   proofs/QuotaPrepAgree.v relates it to purge_zero_offspring of model/Population.v. *)\n")
	fmt.Fprintf(w, "From Coq Require Import ZArith List Bool Floats.\nFrom NeatModel Require Import Res F64 GoSlice GoHeap QuotaView QuotaLoop.\nImport ListNotations.\nOpen Scope float_scope.\n\n")
	fmt.Fprintf(w, "(* population.go:%d  func (%s *Population) purgeZeroOffspringSpecies(%s int) *)\n", fset.Position(fd.Pos()).Line, t.recv, param.Name)
	fmt.Fprintf(w, "Definition gen_purge_zero_offspring (pop : qpop) (v_%s : Z) : res qpop :=\n", param.Name)
	fmt.Fprintf(w, "  let h_Organism := qp_organisms pop in\n  let h_Species := qp_species pop in\n  let f_Organisms := qp_Organisms pop in\n  let f_Species := qp_Species pop in\n")
	fmt.Fprintf(w, "%s.\n", c18bIndent(term))
	if err = w.Flush(); err != nil {
		return err
	}
	if err = out.Close(); err != nil {
		return err
	}
	dst := filepath.Join(outDir, "QuotaPrep.v")
	if old, e := os.ReadFile(dst); e == nil {
		if nw, e2 := os.ReadFile(tmp); e2 == nil && string(old) == string(nw) {
			return os.Remove(tmp)
		}
	}
	return os.Rename(tmp, dst)
}
