package main

import (
	"encoding/json"
	"fmt"
	"math"
	"math/rand"

	"github.com/yaricom/goNEAT/v4/neat"
	"github.com/yaricom/goNEAT/v4/neat/genetics"
	neatmath "github.com/yaricom/goNEAT/v4/neat/math"
	"github.com/yaricom/goNEAT/v4/neat/network"
)

// Random construction (newGenomeRand, NewPopulationRandom): correspondence with coq/model/RandGenome.v
// (case files cases_C01_200.v / cases_C01_201.v over coq/cases/RandCases.v) and a Go-side oracle of the
// statement "a randomly constructed genome with at least one connection gene is well-formed, and carries
// the documented input/bias/hidden/output nodes".

type c01RandInput struct {
	Kind      string        `json:"rand"` // "genome" or "population"
	Seed      int64         `json:"seed"`
	NewId     int           `json:"new_id"`
	In        int           `json:"in"`
	Out       int           `json:"out"`
	N         int           `json:"n"`
	MaxHidden int           `json:"max_hidden"`
	Recurrent bool          `json:"recurrent"`
	LinkProb  float64       `json:"link_prob"`
	Opts      *neat.Options `json:"opts"`
}

func c01RandActivators(o *neat.Options, k int) {
	switch k {
	case 0:
		o.NodeActivators, o.NodeActivatorsProb = nil, nil
	case 1:
		o.NodeActivators = []neatmath.NodeActivationType{neatmath.SigmoidSteepenedActivation}
		o.NodeActivatorsProb = []float64{1}
	case 2:
		o.NodeActivators = []neatmath.NodeActivationType{neatmath.GaussianBipolarActivation, neatmath.TanhActivation}
		o.NodeActivatorsProb = []float64{0.5, 0.5}
	case 3:
		o.NodeActivators = []neatmath.NodeActivationType{neatmath.TanhActivation, neatmath.LinearActivation, neatmath.StepActivation}
		o.NodeActivatorsProb = []float64{0.2, 0.5, 0.3}
	case 4:
		o.NodeActivators = []neatmath.NodeActivationType{neatmath.SigmoidBipolarActivation, neatmath.GaussianBipolarActivation, neatmath.LinearAbsActivation, neatmath.SineActivation}
		o.NodeActivatorsProb = []float64{0.25, 0.35, 0.15, 0.25}
	case 5: // count mismatch: ErrActivatorsProbabilitiesNumberMismatch as soon as a hidden node is built
		o.NodeActivators = []neatmath.NodeActivationType{neatmath.TanhActivation, neatmath.LinearActivation}
		o.NodeActivatorsProb = []float64{1}
	}
}

// c01RandDraws locates the raw draw `next` (read off the global source after the call) in the stream of
// rand.Seed(seed): its index is the number of draws the implementation consumed
func c01RandDraws(r *Run, seed, next int64) int {
	n := 1024
	for n <= 1<<22 {
		tape := tapeFor(seed, n)
		for i, v := range tape {
			if v == next {
				return i
			}
		}
		n *= 4
	}
	r.Note("c01_rand: could not locate the next draw in the tape")
	return n/4 - 1
}

// c01RandGenomeOracle: the statement on one constructed genome (independent of the Coq model)
func c01RandGenomeOracle(in *c01RandInput, g *genetics.Genome, bad func(key, what string)) {
	total := in.In + in.Out + in.MaxHidden
	firstOutput := total - in.Out + 1
	if g.Id != in.NewId {
		bad("rand-genome-id", fmt.Sprintf("genome id %d, requested %d", g.Id, in.NewId))
	}
	// the documented nodes: inputs 1..in-1, bias in, hidden in+1..in+n, outputs firstOutput..total
	want := map[int]network.NodeNeuronType{}
	var order []int
	for i := 1; i <= in.In; i++ {
		want[i] = network.InputNeuron
		if i == in.In {
			want[i] = network.BiasNeuron
		}
		order = append(order, i)
	}
	for i := in.In + 1; i <= in.In+in.N; i++ {
		want[i] = network.HiddenNeuron
		order = append(order, i)
	}
	for i := firstOutput; i <= total; i++ {
		want[i] = network.OutputNeuron
		order = append(order, i)
	}
	if len(g.Nodes) != len(order) {
		bad("rand-genome-nodes", fmt.Sprintf("%d nodes, documented %d", len(g.Nodes), len(order)))
	} else {
		for k, nd := range g.Nodes {
			if nd.Id != order[k] || nd.NeuronType != want[order[k]] {
				bad("rand-genome-nodes", fmt.Sprintf("node %d is (id %d, role %d), documented (id %d, role %d)", k, nd.Id, nd.NeuronType, order[k], want[order[k]]))
				break
			}
			if nd.IsSensor() && nd.ActivationType != neatmath.NullActivation {
				bad("rand-genome-nodes", "sensor without NullActivation")
			}
			if nd.NeuronType == network.HiddenNeuron {
				found := false
				for _, a := range in.Opts.NodeActivators {
					found = found || a == nd.ActivationType
				}
				if !found {
					bad("rand-genome-nodes", fmt.Sprintf("hidden node %d carries activation %d which is not registered", nd.Id, nd.ActivationType))
				}
			}
		}
	}
	if len(g.Traits) != 1 || g.Traits[0].Id != 1 || len(g.Traits[0].Params) != neat.NumTraitParams {
		bad("rand-genome-trait", "the genome does not carry exactly the dummy trait 1")
	}
	if len(g.ControlGenes) != 0 {
		bad("rand-genome-modular", "random genome is modular")
	}
	// every component of well-formedness but "has a gene"
	if len(g.Genes) > 0 {
		if e := wfGenome(g); e != nil {
			bad("rand-genome-illformed", "randomly constructed genome with genes is ill-formed: "+e.Error())
		}
	} else {
		for i := 1; i < len(g.Nodes); i++ {
			if g.Nodes[i-1].Id >= g.Nodes[i].Id {
				bad("rand-genome-illformed", "nodes not strictly ascending by id")
			}
		}
	}
	cells := map[[2]int]bool{}
	for _, x := range g.Genes {
		if x.Link.InNode == nil || x.Link.OutNode == nil {
			bad("rand-genome-nil-endpoint", "gene without endpoint node")
			return
		}
		row, col := x.Link.InNode.Id, x.Link.OutNode.Id
		if x.InnovationNum != int64((col-1)*total+(row-1)) {
			bad("rand-genome-innovation", fmt.Sprintf("gene %d->%d carries innovation %d, its matrix position is %d", row, col, x.InnovationNum, (col-1)*total+(row-1)))
		}
		if col <= in.In {
			bad("rand-genome-sensor-target", fmt.Sprintf("gene %d->%d ends in a sensor", row, col))
		}
		if cells[[2]int{row, col}] {
			bad("rand-genome-duplicate-link", fmt.Sprintf("two genes join %d->%d", row, col))
		}
		cells[[2]int{row, col}] = true
		if x.Link.IsRecurrent != (col <= row) {
			bad("rand-genome-recurrent-flag", fmt.Sprintf("gene %d->%d has recurrent flag %v", row, col, x.Link.IsRecurrent))
		}
		if x.Link.IsRecurrent && !in.Recurrent {
			bad("rand-genome-recurrent-unwanted", fmt.Sprintf("recurrent gene %d->%d although recurrent = false", row, col))
		}
		w := x.Link.ConnectionWeight
		if !(math.Abs(w) < 1) || math.Float64bits(w) != math.Float64bits(x.MutationNum) || !x.IsEnabled {
			bad("rand-genome-weight", fmt.Sprintf("gene %d->%d: weight %v, mutation number %v, enabled %v", row, col, w, x.MutationNum, x.IsEnabled))
		}
		if x.Link.Trait == nil || x.Link.Trait != g.Traits[0] {
			bad("rand-genome-trait", "gene does not reference the genome's dummy trait")
		}
	}
	if in.LinkProb >= 1 {
		// every admissible cell carries a gene
		wantGenes := 0
		ok := func(i int) bool { return i <= in.In+in.N || i >= firstOutput }
		for col := in.In + 1; col <= total; col++ {
			for row := 1; row <= total; row++ {
				if ok(col) && ok(row) && (col > row || in.Recurrent) {
					wantGenes++
				}
			}
		}
		if len(g.Genes) != wantGenes {
			bad("rand-genome-full-matrix", fmt.Sprintf("link probability 1: %d genes, %d admissible cells", len(g.Genes), wantGenes))
		}
	}
	if in.LinkProb <= 0 && len(g.Genes) != 0 {
		bad("rand-genome-empty-matrix", "link probability 0 but the genome has genes")
	}
}

func c01RandOneGenome(r *Run, in *c01RandInput, cf *CaseFile, caseID int) {
	quiet()
	bad := func(key, what string) { r.Fail(Failure{Key: key, What: what, Input: in}) }
	var g *genetics.Genome
	var err error
	rand.Seed(in.Seed)
	func() {
		defer func() {
			if p := recover(); p != nil {
				err = fmt.Errorf("panic: %v", p)
			}
		}()
		g, err = genetics.VNewGenomeRand(in.NewId, in.In, in.Out, in.N, in.MaxHidden, in.Recurrent, in.LinkProb, in.Opts)
	}()
	next := rand.Int63()
	pos := c01RandDraws(r, in.Seed, next)
	goRes := "RgFailed"
	expectErr := in.N > 0 && (len(in.Opts.NodeActivators) == 0 || (len(in.Opts.NodeActivators) > 1 && len(in.Opts.NodeActivators) != len(in.Opts.NodeActivatorsProb)))
	if err == nil && g != nil {
		goRes = fmt.Sprintf("(RgOk %s %s)", coqGenome(g), Z(next))
		if expectErr {
			bad("rand-genome-missing-error", "hidden nodes were built without usable activator settings")
		}
		c01RandGenomeOracle(in, g, bad)
		r.Hist("rand_genome_genes", bucket(len(g.Genes)))
		r.Hist("rand_genome_draws", bucket(pos))
		r.Count(fmt.Sprint("randgenome|", snap(g).str()), len(g.Genes) > 0)
		if caseID%40 == 0 {
			r.Sample(map[string]interface{}{"random_genome": in, "genes": snap(g).Genes, "nodes": snap(g).Nodes, "draws": pos})
		}
	} else {
		r.Hist("rand_genome_errors", err.Error())
		if !expectErr {
			bad("rand-genome-error", "newGenomeRand failed on valid parameters: "+err.Error())
		}
	}
	if cf != nil {
		// the tape: everything the implementation consumed plus the next draw; every eighth case lets Coq's model of
		// the seeded source produce it
		tape := ZList(tapeFor(in.Seed, pos+1))
		if caseID%8 == 0 {
			tape = fmt.Sprintf("(go_tape %s %d)", Z(in.Seed), pos+1)
		}
		cf.Add(fmt.Sprintf("{| rc_id := %d; rc_opts := %s; rc_new_id := %s; rc_in := %d; rc_out := %d; rc_n := %d; rc_max_hidden := %d; rc_rec := %s; rc_link_prob := %s; rc_tape := %s; rc_go := %s |}",
			caseID, coqOptions(in.Opts), ZI(in.NewId), in.In, in.Out, in.N, in.MaxHidden, B(in.Recurrent), F(in.LinkProb), tape, goRes))
		r.SaveInput(caseID, in)
	}
}

func c01RandOnePopulation(r *Run, in *c01RandInput, cf *CaseFile, caseID int, expectErr bool) {
	quiet()
	bad := func(key, what string) { r.Fail(Failure{Key: key, What: what, Input: in}) }
	var pop *genetics.Population
	var err error
	rand.Seed(in.Seed)
	func() {
		defer func() {
			if p := recover(); p != nil {
				err = fmt.Errorf("panic: %v", p)
			}
		}()
		pop, err = genetics.NewPopulationRandom(in.In, in.Out, in.MaxHidden, in.Recurrent, in.LinkProb, in.Opts)
	}()
	next := rand.Int63()
	pos := c01RandDraws(r, in.Seed, next)
	goRes := "None"
	if err == nil && pop != nil {
		if caseID%4 == 0 {
			goRes = fmt.Sprintf("(Some (GF %d %s))", popDigest(pop, next), coqPopObs(pop, next))
		} else {
			goRes = fmt.Sprintf("(Some (GD %d))", popDigest(pop, next))
		}
		if expectErr {
			bad("rand-population-missing-error", "NewPopulationRandom accepted invalid settings")
		}
		// the statement, population level
		if len(pop.Organisms) != in.Opts.PopSize {
			bad("rand-population-size", fmt.Sprintf("%d organisms, configured %d", len(pop.Organisms), in.Opts.PopSize))
		}
		total := in.In + in.Out + in.MaxHidden
		_, ni, nn := genetics.VPopulationCounters(pop)
		if ni != int64(total*total+1) || int(nn) != total+1 {
			bad("rand-population-counters", fmt.Sprintf("counters (%d, %d), documented (%d, %d)", ni, nn, total*total+1, total+1))
		}
		empty := 0
		member := map[*genetics.Organism]int{}
		for _, s := range pop.Species {
			for _, o := range s.Organisms {
				member[o]++
				if o.Species != s {
					bad("rand-population-species", "organism listed by a species it does not point to")
				}
			}
		}
		for i, o := range pop.Organisms {
			gin := *in
			gin.Kind, gin.NewId, gin.N = "genome-of-population", i, len(o.Genotype.Nodes)-in.In-in.Out
			if gin.N < 0 || gin.N >= in.MaxHidden {
				bad("rand-population-hidden", fmt.Sprintf("organism %d has %d hidden nodes, maxHidden %d", i, gin.N, in.MaxHidden))
			}
			c01RandGenomeOracle(&gin, o.Genotype, bad)
			if len(o.Genotype.Genes) == 0 {
				empty++
			}
			if o.Generation != 1 || member[o] != 1 {
				bad("rand-population-species", fmt.Sprintf("organism %d: generation %d, member of %d species", i, o.Generation, member[o]))
			}
		}
		r.Hist("rand_population_geneless_genomes", bucket(empty))
		r.Hist("rand_population_species", bucket(len(pop.Species)))
		r.Hist("rand_population_draws", bucket(pos/64))
		r.Count(fmt.Sprint("randpop|", in.Seed), len(pop.Species) > 1)
		if caseID%8 == 0 {
			r.Sample(map[string]interface{}{"random_population": in, "species": len(pop.Species), "geneless_genomes": empty, "draws": pos})
		}
	} else {
		r.Hist("rand_population_errors", err.Error())
		if !expectErr {
			bad("rand-population-error", "NewPopulationRandom failed on valid parameters: "+err.Error())
		}
	}
	if cf != nil {
		cf.Add(fmt.Sprintf("{| rp_id := %d; rp_opts := %s; rp_in := %d; rp_out := %d; rp_max_hidden := %d; rp_rec := %s; rp_link_prob := %s; rp_seed := %s; rp_draws := %d; rp_go := %s |}",
			caseID, coqOptions(in.Opts), in.In, in.Out, in.MaxHidden, B(in.Recurrent), F(in.LinkProb), Z(in.Seed), pos+1, goRes))
		r.SaveInput(caseID, in)
	}
}

var c01RandLinkProbs = []float64{0, 0.2, 0.5, 1}

// c01RandGenomes is called by the C01 runner
func c01RandGenomes(r *Run) {
	imports := "Res F64 GoSource Genome Options GenomeLit EpochCases RandCases"
	cf := r.NewCaseFile(200, imports, "rand_case")
	id := 200000
	emit := func(in *c01RandInput) {
		if (id-200000)%40 == 0 && id > 200000 {
			cf.Close("rand_mismatches")
			cf = r.NewCaseFile(200+2*((id-200000)/40), imports, "rand_case")
		}
		c01RandOneGenome(r, in, cf, id)
		id++
	}
	// boundary families
	for _, rec := range []bool{false, true} {
		for _, lp := range c01RandLinkProbs {
			for _, shape := range [][4]int{{1, 1, 0, 0}, {1, 1, 0, 2}, {2, 1, 1, 1}, {3, 2, 3, 3}, {4, 3, 2, 6}, {2, 2, 0, 3}} {
				o := baseOptions()
				c01RandActivators(o, 1+(id%4))
				emit(&c01RandInput{Kind: "genome", Seed: r.Rng.Int63(), NewId: id % 7, In: shape[0], Out: shape[1], N: shape[2], MaxHidden: shape[3], Recurrent: rec, LinkProb: lp, Opts: o})
			}
		}
	}
	// activator settings that make RandomNodeActivationType fail (only when a hidden node is built)
	for _, k := range []int{0, 5} {
		for _, n := range []int{0, 2} {
			o := baseOptions()
			c01RandActivators(o, k)
			emit(&c01RandInput{Kind: "genome", Seed: r.Rng.Int63(), NewId: 1, In: 2, Out: 1, N: n, MaxHidden: 3, Recurrent: true, LinkProb: 0.5, Opts: o})
		}
	}
	// random parameters
	for i := 0; i < r.N(100, 3000); i++ {
		o := baseOptions()
		c01RandActivators(o, 1+r.Rng.Intn(4))
		mh := r.Rng.Intn(7)
		in := &c01RandInput{Kind: "genome", Seed: r.Rng.Int63(), NewId: r.Rng.Intn(50), In: 1 + r.Rng.Intn(4), Out: 1 + r.Rng.Intn(3),
			N: r.Rng.Intn(mh + 1), MaxHidden: mh, Recurrent: r.Rng.Intn(2) == 0, LinkProb: c01RandLinkProbs[r.Rng.Intn(4)], Opts: o}
		if r.Rng.Intn(6) == 0 {
			in.LinkProb = r.Rng.Float64()
		}
		emit(in)
	}
	cf.Close("rand_mismatches")

	// whole populations
	pf := r.NewCaseFile(201, imports, "randpop_case")
	pid := 210000
	emitPop := func(in *c01RandInput, expectErr bool) {
		c01RandOnePopulation(r, in, pf, pid, expectErr)
		pid++
	}
	for i := 0; i < r.N(20, 300); i++ {
		if (pid-210000)%8 == 0 && pid > 210000 {
			pf.Close("randpop_mismatches")
			pf = r.NewCaseFile(201+2*((pid-210000)/8), imports, "randpop_case")
		}
		o := epochOptions(r.Rng, 20)
		c01RandActivators(o, 1+r.Rng.Intn(4))
		in := &c01RandInput{Kind: "population", Seed: r.Rng.Int63(), In: 1 + r.Rng.Intn(4), Out: 1 + r.Rng.Intn(3), MaxHidden: 1 + r.Rng.Intn(6),
			Recurrent: r.Rng.Intn(2) == 0, LinkProb: c01RandLinkProbs[r.Rng.Intn(4)], Opts: o}
		if i%5 == 4 {
			in.LinkProb = 0.05 + 0.3*r.Rng.Float64() // sparse: genomes without genes occur
		}
		emitPop(in, false)
	}
	// invalid settings: population size 0, maxHidden 0 (rand.Intn(0) panics), compatibility threshold 0
	for k := 0; k < 3; k++ {
		o := epochOptions(r.Rng, 10)
		in := &c01RandInput{Kind: "population", Seed: r.Rng.Int63(), In: 2, Out: 1, MaxHidden: 2, Recurrent: true, LinkProb: 0.5, Opts: o}
		switch k {
		case 0:
			o.PopSize = 0
		case 1:
			in.MaxHidden = 0
		case 2:
			o.CompatThreshold = 0
		}
		emitPop(in, true)
	}
	pf.Close("randpop_mismatches")
}

// c01RandReplay re-runs a recorded random-construction input; handled = the input is one of ours
func c01RandReplay(r *Run, input []byte) (bool, error) {
	var in c01RandInput
	if err := json.Unmarshal(input, &in); err != nil || in.Kind == "" {
		return false, nil
	}
	switch in.Kind {
	case "population", "genome-of-population":
		in.Kind = "population"
		c01RandOnePopulation(r, &in, nil, 0, in.Opts.PopSize <= 0 || in.MaxHidden <= 0 || in.Opts.CompatThreshold == 0)
	default:
		c01RandOneGenome(r, &in, nil, 0)
	}
	return true, nil
}
