module neatverif

go 1.18

require (
	github.com/yaricom/goNEAT/v4 v4.0.0
	gopkg.in/yaml.v3 v3.0.1
)

require (
	github.com/pkg/errors v0.9.1 // indirect
	github.com/sbinet/npyio v0.8.0 // indirect
	github.com/spf13/cast v1.5.1 // indirect
	golang.org/x/exp v0.0.0-20230321023759-10a507213a29 // indirect
	gonum.org/v1/gonum v0.14.0 // indirect
)

replace github.com/yaricom/goNEAT/v4 => /repo
