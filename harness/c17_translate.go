package main

// translators["nondet"] (property C17, "evolution is reproducible from the seed").
//
// Reads the CURRENT source text of the library packages neat, neat/math, neat/network, neat/genetics and of
// executor.go (non-test files; files constrained to the build tag `verif` are excluded), type-checks them with
// go/types (standard library only; imports are resolved from source: GOROOT, the repo tree, the module cache
// at the versions of the repo's go.mod), builds a static call graph over the functions, methods, package-level
// function-literal variables and initialised package-level variables of these packages and lists every potential
// source of run-to-run nondeterminism in the functions reachable from
//
//	NewPopulation, Population.spawn, SequentialPopulationEpochExecutor.NextEpoch,
//	Genome.mateMultipoint, Genome.mateMultipointAvg, Genome.mateSinglePoint, Genome.mutate*, Trait.Mutate.
//
// Call graph (over-approximation):
//   - any use (call or value) of a function/method identifier of these packages is an edge to it;
//   - a call through an interface method is an edge to EVERY method of that name in these packages;
//   - a call of a function value is an edge to every function / method / function-literal variable of these
//     packages with an identical signature;
//   - a value of a named type of these packages passed where an interface is expected (sort.Sort, fmt.Sprintf,
//     errors.Wrap, encoders ...) makes all methods of that type reachable (the callee may call them back);
//     an interface-typed argument makes the methods of that interface reachable on every implementing type;
//   - a use of an initialised package-level variable is an edge to its initialiser; `init` functions of the
//     packages are always reachable;
//   - function literals belong to the function that contains them.
//
// Sites (kind, detail), detail being source text and never a line number:
//
//	range-map       `range` over an expression of map type (detail: the expression), sync.Map.Range
//	range-unknown   `range` over an expression whose type is none of slice/array/string/integer/channel
//	                (type parameters, iterator functions): flagged conservatively
//	range-chan      `range` over a channel
//	time            use of any function or method of package time
//	go, select      the statements (detail: the started call / the communication clauses)
//	fmt-p           a %p verb in a string literal
//	unsafe, reflect use of anything of package unsafe / any function or method of package reflect
//	reseed          math/rand.Seed/New/NewSource/NewZipf, any method of *rand.Rand (a private source)
//	entropy         crypto/rand, math/rand/v2, hash/maphash
//	env             os.Getenv/LookupEnv/Environ/ExpandEnv/Getpid/Getppid/Hostname/Getwd/Executable/Args-free...
//	runtime         any function of runtime, runtime/debug, runtime/metrics
//	maps-unordered  Keys/Values/All of maps / golang.org/x/exp/maps
//
// Anything the translator cannot parse, type-check or find (a root, a package) is an error, so the check fails
// instead of silently passing. Output: <outDir>/NondetSites.v (sorted, deduplicated, deterministic).

import (
	"bufio"
	"bytes"
	"fmt"
	"go/ast"
	"go/build"
	"go/importer"
	"go/parser"
	"go/printer"
	"go/token"
	"go/types"
	"os"
	"path/filepath"
	"regexp"
	"runtime"
	"sort"
	"strconv"
	"strings"
)

func init() { translators["nondet"] = c17TranslateNondet }

// ---------- loading and type-checking ----------

type c17Pkg struct {
	path  string // import path
	short string // name used in function names: genetics, network, math, neat, main
	dir   string
	files []*ast.File
	info  *types.Info
	pkg   *types.Package
}

type c17Loader struct {
	fset     *token.FileSet
	repo     string
	modPath  string
	reqs     map[string]string // module path -> version (repo go.mod)
	modCache string
	ctxt     build.Context
	std      types.ImporterFrom
	cache    map[string]*types.Package
	busy     map[string]bool
	own      map[string]*c17Pkg // analysed packages by import path
	hardErrs []string           // parse / type errors in analysed packages and unresolvable imports
}

func c17NewLoader(repo string) (*c17Loader, error) {
	l := &c17Loader{fset: token.NewFileSet(), repo: repo, reqs: map[string]string{}, cache: map[string]*types.Package{},
		busy: map[string]bool{}, own: map[string]*c17Pkg{}}
	gm, err := os.ReadFile(filepath.Join(repo, "go.mod"))
	if err != nil {
		return nil, err
	}
	inReq := false
	for _, line := range strings.Split(string(gm), "\n") {
		if i := strings.Index(line, "//"); i >= 0 {
			line = line[:i]
		}
		f := strings.Fields(line)
		switch {
		case len(f) >= 2 && f[0] == "module":
			l.modPath = strings.Trim(f[1], "\"")
		case len(f) >= 2 && f[0] == "require" && f[1] == "(":
			inReq = true
		case len(f) == 1 && f[0] == ")":
			inReq = false
		case len(f) >= 3 && f[0] == "require":
			l.reqs[f[1]] = f[2]
		case inReq && len(f) >= 2:
			l.reqs[f[0]] = f[1]
		}
	}
	if l.modPath == "" {
		return nil, fmt.Errorf("no module line in %s/go.mod", repo)
	}
	l.modCache = os.Getenv("GOMODCACHE")
	if l.modCache == "" {
		gp := os.Getenv("GOPATH")
		if gp == "" {
			gp = build.Default.GOPATH
		}
		l.modCache = filepath.Join(filepath.SplitList(gp)[0], "pkg", "mod")
	}
	l.ctxt = build.Default
	l.ctxt.CgoEnabled = false
	l.ctxt.BuildTags = nil // in particular: not `verif`
	build.Default.CgoEnabled = false
	std, ok := importer.ForCompiler(l.fset, "source", nil).(types.ImporterFrom)
	if !ok {
		return nil, fmt.Errorf("go/importer: no source importer")
	}
	l.std = std
	return l, nil
}

func c17EscapeModPath(s string) string {
	var b strings.Builder
	for _, r := range s {
		if r >= 'A' && r <= 'Z' {
			b.WriteByte('!')
			b.WriteRune(r + 'a' - 'A')
		} else {
			b.WriteRune(r)
		}
	}
	return b.String()
}

func (l *c17Loader) Import(path string) (*types.Package, error) { return l.ImportFrom(path, "", 0) }

func (l *c17Loader) ImportFrom(path, _ string, _ types.ImportMode) (*types.Package, error) {
	if path == "unsafe" {
		return types.Unsafe, nil
	}
	if p, ok := l.cache[path]; ok {
		return p, nil
	}
	if l.busy[path] {
		return nil, fmt.Errorf("import cycle through %s", path)
	}
	first := path
	if i := strings.Index(path, "/"); i >= 0 {
		first = path[:i]
	}
	if !strings.Contains(first, ".") { // standard library
		p, err := l.std.ImportFrom(path, filepath.Join(runtime.GOROOT(), "src"), 0)
		if err != nil {
			l.hardErrs = append(l.hardErrs, fmt.Sprintf("import %s: %v", path, err))
			return nil, err
		}
		l.cache[path] = p
		return p, nil
	}
	var dir string
	if path == l.modPath || strings.HasPrefix(path, l.modPath+"/") {
		dir = filepath.Join(l.repo, filepath.FromSlash(strings.TrimPrefix(path, l.modPath)))
	} else {
		best := ""
		for m := range l.reqs {
			if (path == m || strings.HasPrefix(path, m+"/")) && len(m) > len(best) {
				best = m
			}
		}
		if best == "" {
			err := fmt.Errorf("import %s: no module of the repo's go.mod provides it", path)
			l.hardErrs = append(l.hardErrs, err.Error())
			return nil, err
		}
		dir = filepath.Join(l.modCache, filepath.FromSlash(c17EscapeModPath(best))+"@"+l.reqs[best], filepath.FromSlash(strings.TrimPrefix(path, best)))
	}
	p, err := l.loadDependency(path, dir)
	if err != nil {
		l.hardErrs = append(l.hardErrs, fmt.Sprintf("import %s (%s): %v", path, dir, err))
		return nil, err
	}
	return p, nil
}

func (l *c17Loader) parseDir(dir string) ([]*ast.File, string, error) {
	bp, err := l.ctxt.ImportDir(dir, 0)
	if err != nil {
		if _, ok := err.(*build.MultiplePackageError); !ok {
			return nil, "", err
		}
	}
	var files []*ast.File
	names := append([]string{}, bp.GoFiles...)
	sort.Strings(names)
	for _, n := range names {
		f, err := parser.ParseFile(l.fset, filepath.Join(dir, n), nil, parser.SkipObjectResolution)
		if err != nil {
			return nil, "", err
		}
		files = append(files, f)
	}
	if len(files) == 0 {
		return nil, "", fmt.Errorf("no Go files in %s", dir)
	}
	return files, bp.Name, nil
}

// loadDependency type-checks a package that is not analysed itself (signatures only)
func (l *c17Loader) loadDependency(path, dir string) (*types.Package, error) {
	if o, ok := l.own[path]; ok && o.pkg != nil {
		return o.pkg, nil
	}
	l.busy[path] = true
	defer delete(l.busy, path)
	files, _, err := l.parseDir(dir)
	if err != nil {
		return nil, err
	}
	// type errors inside third-party code (e.g. assembly stubs) are tolerated as long as the analysed packages check
	conf := types.Config{Importer: l, IgnoreFuncBodies: true, FakeImportC: true, Error: func(error) {}}
	p, _ := conf.Check(path, l.fset, files, nil)
	if p == nil {
		return nil, fmt.Errorf("cannot type-check %s", path)
	}
	l.cache[path] = p
	return p, nil
}

// loadOwn parses and fully type-checks one analysed package; every error is hard
func (l *c17Loader) loadOwn(path, dir string) (*c17Pkg, error) {
	files, name, err := l.parseDir(dir)
	if err != nil {
		return nil, err
	}
	op := &c17Pkg{path: path, short: name, dir: dir, files: files,
		info: &types.Info{Types: map[ast.Expr]types.TypeAndValue{}, Defs: map[*ast.Ident]types.Object{}, Uses: map[*ast.Ident]types.Object{},
			Selections: map[*ast.SelectorExpr]*types.Selection{}, Implicits: map[ast.Node]types.Object{}}}
	var terrs []string
	conf := types.Config{Importer: l, FakeImportC: true, Error: func(e error) { terrs = append(terrs, e.Error()) }}
	l.busy[path] = true
	p, _ := conf.Check(path, l.fset, files, op.info)
	delete(l.busy, path)
	if len(terrs) > 0 {
		if len(terrs) > 8 {
			terrs = terrs[:8]
		}
		return nil, fmt.Errorf("type-checking %s: %s", path, strings.Join(terrs, "; "))
	}
	op.pkg = p
	l.cache[path] = p
	l.own[path] = op
	return op, nil
}

// ---------- call graph ----------

type c17Node struct {
	name   string
	pkg    *c17Pkg
	bodies []ast.Node
	sig    *types.Signature // nil for plain variables
	edges  map[string]bool
	sites  map[[2]string]bool
}

type c17Graph struct {
	l        *c17Loader
	pkgs     []*c17Pkg
	nodes    map[string]*c17Node
	byObj    map[types.Object]*c17Node
	byMethod map[string][]*c17Node // method name -> methods of that name
	funcVals []*c17Node            // nodes with a signature (targets of calls through function values)
	named    []*types.Named        // named non-interface types of the analysed packages
	ownPkg   map[*types.Package]*c17Pkg
	inits    map[string]bool
}

func (g *c17Graph) node(name string, p *c17Pkg) *c17Node {
	n := g.nodes[name]
	if n == nil {
		n = &c17Node{name: name, pkg: p, edges: map[string]bool{}, sites: map[[2]string]bool{}}
		g.nodes[name] = n
	}
	return n
}

func c17RecvName(t types.Type) string {
	if p, ok := t.(*types.Pointer); ok {
		t = p.Elem()
	}
	if n, ok := t.(*types.Named); ok {
		return n.Obj().Name()
	}
	return "?"
}

func c17FuncName(short string, f *types.Func) string {
	sig := f.Type().(*types.Signature)
	if sig.Recv() != nil {
		return short + "." + c17RecvName(sig.Recv().Type()) + "." + f.Name()
	}
	return short + "." + f.Name()
}

// c17ExtName names a function of a package outside the analysed ones: time.Now, time.Time.UnixNano, rand.Rand.Intn
func c17ExtName(f *types.Func) string {
	return c17FuncName(f.Pkg().Name(), f)
}

func (g *c17Graph) collect() {
	for _, p := range g.pkgs {
		g.ownPkg[p.pkg] = p
		sc := p.pkg.Scope()
		for _, nm := range sc.Names() {
			if tn, ok := sc.Lookup(nm).(*types.TypeName); ok && !tn.IsAlias() {
				if nt, ok := tn.Type().(*types.Named); ok && !types.IsInterface(nt) {
					g.named = append(g.named, nt)
				}
			}
		}
		for _, f := range p.files {
			for _, d := range f.Decls {
				switch decl := d.(type) {
				case *ast.FuncDecl:
					obj, _ := p.info.Defs[decl.Name].(*types.Func)
					if obj == nil {
						continue
					}
					n := g.node(c17FuncName(p.short, obj), p)
					if decl.Body != nil {
						n.bodies = append(n.bodies, decl.Body)
					}
					if decl.Name.Name == "init" && decl.Recv == nil {
						g.inits[n.name] = true // not addressable; all init bodies of a package share the node <pkg>.init
						continue
					}
					n.sig = obj.Type().(*types.Signature)
					g.byObj[obj] = n
					if decl.Recv != nil {
						g.byMethod[obj.Name()] = append(g.byMethod[obj.Name()], n)
					}
					g.funcVals = append(g.funcVals, n)
				case *ast.GenDecl:
					if decl.Tok != token.VAR {
						continue
					}
					for _, s := range decl.Specs {
						vs := s.(*ast.ValueSpec)
						for i, id := range vs.Names {
							obj, _ := p.info.Defs[id].(*types.Var)
							if obj == nil || len(vs.Values) == 0 {
								continue
							}
							val := vs.Values[0]
							if len(vs.Values) == len(vs.Names) {
								val = vs.Values[i]
							}
							n := g.node(p.short+"."+id.Name, p)
							n.bodies = append(n.bodies, val)
							g.byObj[obj] = n
							if sig, ok := obj.Type().Underlying().(*types.Signature); ok {
								n.sig = sig
								g.funcVals = append(g.funcVals, n)
							}
						}
					}
				}
			}
		}
	}
}

// c17IsFuncRef: the expression names a declared function or method (not a function value)
func c17IsFuncRef(info *types.Info, e ast.Expr) bool {
	switch f := ast.Unparen(e).(type) {
	case *ast.Ident:
		_, ok := info.Uses[f].(*types.Func)
		return ok
	case *ast.SelectorExpr:
		_, ok := info.Uses[f.Sel].(*types.Func)
		return ok
	}
	return false
}

func c17SameShape(a, b *types.Signature) bool {
	if a.Params().Len() != b.Params().Len() || a.Results().Len() != b.Results().Len() || a.Variadic() != b.Variadic() {
		return false
	}
	for i := 0; i < a.Params().Len(); i++ {
		if !types.Identical(a.Params().At(i).Type(), b.Params().At(i).Type()) {
			return false
		}
	}
	for i := 0; i < a.Results().Len(); i++ {
		if !types.Identical(a.Results().At(i).Type(), b.Results().At(i).Type()) {
			return false
		}
	}
	return true
}

func (g *c17Graph) text(n ast.Node) string {
	var b bytes.Buffer
	_ = printer.Fprint(&b, g.l.fset, n)
	return strings.Join(strings.Fields(b.String()), " ")
}

var c17PercentP = regexp.MustCompile(`%[-+# 0]*(\[[0-9]+\])?[0-9*]*(\.[0-9*]*)?(\[[0-9]+\])?p`)

var c17EnvFuncs = map[string]bool{"Getenv": true, "LookupEnv": true, "Environ": true, "ExpandEnv": true, "Getpid": true, "Getppid": true,
	"Hostname": true, "Getwd": true, "Executable": true, "Getuid": true, "Getgid": true, "UserHomeDir": true, "TempDir": true}

// extSite classifies a use of a function of a package outside the analysed ones
func c17ExtSite(f *types.Func) (string, string, bool) {
	path, name := f.Pkg().Path(), c17ExtName(f)
	sig := f.Type().(*types.Signature)
	switch {
	case path == "time":
		return "time", name, true
	case path == "reflect":
		return "reflect", name, true
	case path == "math/rand":
		if sig.Recv() != nil && c17RecvName(sig.Recv().Type()) == "Rand" {
			return "reseed", name, true
		}
		if sig.Recv() == nil && (f.Name() == "Seed" || f.Name() == "New" || f.Name() == "NewSource" || f.Name() == "NewZipf") {
			return "reseed", name, true
		}
	case path == "math/rand/v2" || path == "crypto/rand" || path == "hash/maphash":
		return "entropy", path + "." + f.Name(), true
	case path == "os":
		if sig.Recv() == nil && c17EnvFuncs[f.Name()] {
			return "env", name, true
		}
	case path == "runtime" || path == "runtime/debug" || path == "runtime/metrics":
		return "runtime", name, true
	case path == "maps" || path == "golang.org/x/exp/maps":
		if f.Name() == "Keys" || f.Name() == "Values" || f.Name() == "All" {
			return "maps-unordered", path + "." + f.Name(), true
		}
	case path == "sync":
		if sig.Recv() != nil && c17RecvName(sig.Recv().Type()) == "Map" && f.Name() == "Range" {
			return "range-map", "sync.Map.Range", true
		}
	}
	return "", "", false
}

// escape: a value of static type t flows into an interface-typed parameter
func (g *c17Graph) escape(n *c17Node, t types.Type) {
	if t == nil {
		return
	}
	if types.IsInterface(t) {
		it, ok := t.Underlying().(*types.Interface)
		if !ok || it.NumMethods() == 0 {
			return
		}
		for _, nt := range g.named {
			if types.Implements(nt, it) || types.Implements(types.NewPointer(nt), it) {
				for i := 0; i < it.NumMethods(); i++ {
					g.methodEdge(n, nt, it.Method(i).Name())
				}
			}
		}
		return
	}
	if p, ok := t.(*types.Pointer); ok {
		t = p.Elem()
	}
	nt, ok := t.(*types.Named)
	if !ok || nt.Obj().Pkg() == nil || g.ownPkg[nt.Obj().Pkg()] == nil {
		return
	}
	nt = nt.Origin()
	for i := 0; i < nt.NumMethods(); i++ {
		if m := g.byObj[nt.Method(i)]; m != nil {
			n.edges[m.name] = true
		}
	}
}

func (g *c17Graph) methodEdge(n *c17Node, nt *types.Named, name string) {
	for i := 0; i < nt.NumMethods(); i++ {
		if nt.Method(i).Name() == name {
			if m := g.byObj[nt.Method(i)]; m != nil {
				n.edges[m.name] = true
			}
		}
	}
}

func (g *c17Graph) scan(n *c17Node) {
	info := n.pkg.info
	for _, body := range n.bodies {
		ast.Inspect(body, func(x ast.Node) bool {
			switch v := x.(type) {
			case *ast.Ident:
				obj := info.Uses[v]
				if obj == nil || obj.Pkg() == nil {
					return true
				}
				if obj.Pkg().Path() == "unsafe" {
					n.sites[[2]string{"unsafe", "unsafe." + obj.Name()}] = true
					return true
				}
				switch o := obj.(type) {
				case *types.Func:
					o = o.Origin()
					if g.ownPkg[o.Pkg()] != nil {
						if m := g.byObj[o]; m != nil {
							n.edges[m.name] = true
						} else if sig := o.Type().(*types.Signature); sig.Recv() != nil && types.IsInterface(sig.Recv().Type()) {
							for _, m := range g.byMethod[o.Name()] {
								n.edges[m.name] = true
							}
						}
						return true
					}
					if sig := o.Type().(*types.Signature); sig.Recv() != nil && types.IsInterface(sig.Recv().Type()) {
						// method of an interface declared elsewhere (error.Error, io.Writer.Write, sort.Interface.Less ...)
						for _, m := range g.byMethod[o.Name()] {
							n.edges[m.name] = true
						}
					}
					if kind, detail, ok := c17ExtSite(o); ok {
						n.sites[[2]string{kind, detail}] = true
					}
				case *types.Var:
					if m := g.byObj[o]; m != nil {
						n.edges[m.name] = true
					}
				}
			case *ast.CallExpr:
				fun := ast.Unparen(v.Fun)
				tv, ok := info.Types[fun]
				if !ok || tv.IsType() || tv.IsBuiltin() {
					return true
				}
				sig, _ := tv.Type.Underlying().(*types.Signature)
				if sig == nil {
					return true
				}
				// is the callee a declared function / method (static) or a function value (dynamic)?
				static := false
				switch f := fun.(type) {
				case *ast.FuncLit:
					static = true // body is part of this node
				case *ast.IndexExpr: // instantiated generic function, or an element of a map/slice of functions
					static = c17IsFuncRef(info, f.X)
				case *ast.IndexListExpr:
					static = c17IsFuncRef(info, f.X)
				default:
					static = c17IsFuncRef(info, fun)
				}
				if !static {
					for _, m := range g.funcVals {
						if c17SameShape(sig, m.sig) {
							n.edges[m.name] = true
						}
					}
				}
				// arguments flowing into interface-typed parameters
				np := sig.Params().Len()
				for i, a := range v.Args {
					var pt types.Type
					switch {
					case sig.Variadic() && i >= np-1:
						pt = sig.Params().At(np - 1).Type()
						if v.Ellipsis == token.NoPos {
							if s, ok := pt.(*types.Slice); ok {
								pt = s.Elem()
							}
						}
					case i < np:
						pt = sig.Params().At(i).Type()
					}
					if pt == nil {
						continue
					}
					if _, isTP := pt.(*types.TypeParam); isTP || types.IsInterface(pt) {
						g.escape(n, info.TypeOf(a))
					} else if s, ok := pt.(*types.Slice); ok && types.IsInterface(s.Elem()) {
						if as, ok := info.TypeOf(a).Underlying().(*types.Slice); ok {
							g.escape(n, as.Elem())
						}
					}
				}
			case *ast.RangeStmt:
				t := info.TypeOf(v.X)
				kind := "range-unknown"
				if t != nil {
					switch u := t.Underlying().(type) {
					case *types.Map:
						kind = "range-map"
					case *types.Slice, *types.Array:
						kind = ""
					case *types.Basic:
						if u.Info()&(types.IsString|types.IsInteger) != 0 {
							kind = ""
						}
					case *types.Pointer:
						if _, ok := u.Elem().Underlying().(*types.Array); ok {
							kind = ""
						}
					case *types.Chan:
						kind = "range-chan"
					}
				}
				if kind != "" {
					n.sites[[2]string{kind, g.text(v.X)}] = true
				}
			case *ast.GoStmt:
				d := "func literal"
				if _, ok := ast.Unparen(v.Call.Fun).(*ast.FuncLit); !ok {
					d = g.text(v.Call.Fun)
				}
				n.sites[[2]string{"go", d}] = true
			case *ast.SelectStmt:
				var cl []string
				for _, c := range v.Body.List {
					cc := c.(*ast.CommClause)
					if cc.Comm == nil {
						cl = append(cl, "default")
					} else {
						cl = append(cl, "case "+g.text(cc.Comm))
					}
				}
				n.sites[[2]string{"select", strings.Join(cl, "; ")}] = true
			case *ast.BasicLit:
				if v.Kind == token.STRING {
					if s, err := strconv.Unquote(v.Value); err == nil && c17PercentP.MatchString(s) {
						n.sites[[2]string{"fmt-p", s}] = true
					}
				}
			}
			return true
		})
	}
}

// ---------- driver ----------

var c17FixedRoots = []string{
	"genetics.NewPopulation",
	"genetics.Population.spawn",
	"genetics.SequentialPopulationEpochExecutor.NextEpoch",
	"genetics.Genome.mateMultipoint",
	"genetics.Genome.mateMultipointAvg",
	"genetics.Genome.mateSinglePoint",
	"neat.Trait.Mutate",
}

type c17Site struct{ fn, kind, detail string }

type c17Analysis struct {
	sites     []c17Site
	reachable []string
	roots     []string
	nFuncs    int
}

func c17Analyse(repo string) (*c17Analysis, error) {
	l, err := c17NewLoader(repo)
	if err != nil {
		return nil, err
	}
	g := &c17Graph{l: l, nodes: map[string]*c17Node{}, byObj: map[types.Object]*c17Node{}, byMethod: map[string][]*c17Node{}, ownPkg: map[*types.Package]*c17Pkg{}, inits: map[string]bool{}}
	// dependency order; executor.go (package main at the repo root) last
	for _, sub := range []string{"neat/math", "neat", "neat/network", "neat/genetics", ""} {
		path := l.modPath
		if sub != "" {
			path += "/" + sub
		}
		p, err := l.loadOwn(path, filepath.Join(repo, filepath.FromSlash(sub)))
		if err != nil {
			return nil, err
		}
		if sub == "" {
			found := false
			for _, f := range p.files {
				if filepath.Base(l.fset.Position(f.Pos()).Filename) == "executor.go" {
					found = true
				}
			}
			if !found {
				return nil, fmt.Errorf("executor.go not found in %s", repo)
			}
		}
		g.pkgs = append(g.pkgs, p)
	}
	if len(l.hardErrs) > 0 {
		return nil, fmt.Errorf("unresolved imports: %s", strings.Join(l.hardErrs, "; "))
	}
	g.collect()
	names := make([]string, 0, len(g.nodes))
	for nm := range g.nodes {
		names = append(names, nm)
	}
	sort.Strings(names)
	for _, nm := range names {
		g.scan(g.nodes[nm])
	}
	// roots
	var roots []string
	for _, r := range c17FixedRoots {
		if g.nodes[r] == nil || len(g.nodes[r].bodies) == 0 {
			return nil, fmt.Errorf("root %s not found in the source", r)
		}
		roots = append(roots, r)
	}
	nMut := 0
	for _, nm := range names {
		if strings.HasPrefix(nm, "genetics.Genome.mutate") && len(g.nodes[nm].bodies) > 0 {
			roots = append(roots, nm)
			nMut++
		}
	}
	if nMut == 0 {
		return nil, fmt.Errorf("no Genome.mutate* method found in the source")
	}
	sort.Strings(roots)
	reach := map[string]bool{}
	var stack []string
	push := func(nm string) {
		if !reach[nm] {
			reach[nm] = true
			stack = append(stack, nm)
		}
	}
	for _, r := range roots {
		push(r)
	}
	for _, nm := range names {
		if g.inits[nm] {
			push(nm) // init functions run before anything else
		}
	}
	for len(stack) > 0 {
		nm := stack[len(stack)-1]
		stack = stack[:len(stack)-1]
		es := make([]string, 0, len(g.nodes[nm].edges))
		for e := range g.nodes[nm].edges {
			es = append(es, e)
		}
		sort.Strings(es)
		for _, e := range es {
			push(e)
		}
	}
	res := &c17Analysis{roots: roots, nFuncs: len(names)}
	for _, nm := range names {
		if !reach[nm] {
			continue
		}
		res.reachable = append(res.reachable, nm)
		for s := range g.nodes[nm].sites {
			res.sites = append(res.sites, c17Site{nm, s[0], s[1]})
		}
	}
	sort.Slice(res.sites, func(i, j int) bool {
		a, b := res.sites[i], res.sites[j]
		if a.fn != b.fn {
			return a.fn < b.fn
		}
		if a.kind != b.kind {
			return a.kind < b.kind
		}
		return a.detail < b.detail
	})
	return res, nil
}

func c17CoqString(s string) string {
	var b strings.Builder
	b.WriteByte('"')
	for _, ch := range []byte(s) {
		switch {
		case ch == '"':
			b.WriteString("\"\"")
		case ch == '\n' || ch == '\t' || ch == '\r':
			b.WriteByte(' ')
		case ch < 32 || ch > 126:
			b.WriteByte('?')
		default:
			b.WriteByte(ch)
		}
	}
	b.WriteByte('"')
	return b.String()
}

func c17TranslateNondet(outDir string) error {
	a, err := c17Analyse(repoRoot())
	if err != nil {
		return err
	}
	if err = os.MkdirAll(outDir, 0o755); err != nil {
		return err
	}
	var buf bytes.Buffer
	w := bufio.NewWriter(&buf)
	fmt.Fprintf(w, "(* GENERATED by `neatverif translate nondet` from the source text of neat, neat/math, neat/network, neat/genetics\n")
	fmt.Fprintf(w, "   and executor.go (non-test files, build tag verif excluded); do not edit.\n")
	fmt.Fprintf(w, "   nondet_sites: (function, kind, detail) for every potential source of run-to-run nondeterminism in the\n")
	fmt.Fprintf(w, "   functions statically reachable from nondet_roots_found; see harness/c17_translate.go for the rules. *)\n")
	fmt.Fprintf(w, "From Coq Require Import String List.\nImport ListNotations.\nOpen Scope string_scope.\n\n")
	fmt.Fprintf(w, "Definition nondet_sites : list (string * string * string) := [")
	for i, s := range a.sites {
		if i > 0 {
			fmt.Fprintf(w, ";")
		}
		fmt.Fprintf(w, "\n  (%s, %s, %s)", c17CoqString(s.fn), c17CoqString(s.kind), c17CoqString(s.detail))
	}
	fmt.Fprintf(w, "\n].\n\n")
	list := func(name string, xs []string) {
		fmt.Fprintf(w, "Definition %s : list string := [", name)
		for i, s := range xs {
			if i > 0 {
				fmt.Fprintf(w, ";")
			}
			fmt.Fprintf(w, "\n  %s", c17CoqString(s))
		}
		fmt.Fprintf(w, "\n].\n\n")
	}
	list("nondet_roots_found", a.roots)
	list("nondet_reachable_functions", a.reachable)
	fmt.Fprintf(w, "(* functions, methods and initialised package-level variables seen in the analysed packages *)\n")
	fmt.Fprintf(w, "Definition nondet_functions_seen : nat := %d.\n", a.nFuncs)
	if err = w.Flush(); err != nil {
		return err
	}
	dst := filepath.Join(outDir, "NondetSites.v")
	if old, e := os.ReadFile(dst); e == nil && bytes.Equal(old, buf.Bytes()) {
		return nil // keep the timestamp so make does not rebuild dependants needlessly
	}
	tmp := dst + ".tmp"
	if err = os.WriteFile(tmp, buf.Bytes(), 0o644); err != nil {
		return err
	}
	return os.Rename(tmp, dst)
}
