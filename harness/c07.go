package main

import (
	"encoding/json"
	"fmt"
	"math"

	"github.com/yaricom/goNEAT/v4/neat"
	"github.com/yaricom/goNEAT/v4/neat/genetics"
	"github.com/yaricom/goNEAT/v4/neat/network"
)

// C07: compatibility distance = excess_coeff*E + disjoint_coeff*D + mutdiff_coeff*W under both methods.
// Real genomes are built from (innovation number, mutation number) lists on a fixed node set and
// the real compatLinear / compatFast / compatibility are called through export_verif_c07.go.

func init() {
	runners["C07"] = runC07
	replayers["C07"] = replayC07
}

type c07Gene struct {
	Innov int64   `json:"innov"`
	Mut   float64 `json:"mut"`
}

type c07Input struct {
	Kind  string    `json:"kind"`
	A     []c07Gene `json:"a"`
	B     []c07Gene `json:"b"`
	Dc    float64   `json:"disjoint_coeff"`
	Ec    float64   `json:"excess_coeff"`
	Mc    float64   `json:"mutdiff_coeff"`
	Trait bool      `json:"trait"`
	// Extreme: magnitudes near the binary64 range; sums may overflow, so only the bit-exact
	// correspondence and the symmetry / self clauses are checked, not the real-number formula
	Extreme bool `json:"extreme,omitempty"`
	// Unsorted: outside the property's quantifier; correspondence and no-NaN only
	Unsorted bool `json:"unsorted,omitempty"`
}

type c07Obs struct {
	FastAB, FastBA, LinAB, LinBA, DispLinAB, DispFastAB float64
}

// c07Genome builds a real genome whose genes carry the given innovation and mutation numbers
func c07Genome(id int, genes []c07Gene, withTrait bool) *genetics.Genome {
	var traits []*neat.Trait
	var tr *neat.Trait
	if withTrait {
		tr = neat.NewTrait()
		tr.Id = 1
		for i := range tr.Params {
			tr.Params[i] = 0.1 * float64(i+1)
		}
		traits = []*neat.Trait{tr}
	}
	nodes := []*network.NNode{
		network.NewNNode(1, network.InputNeuron), network.NewNNode(2, network.InputNeuron),
		network.NewNNode(3, network.BiasNeuron), network.NewNNode(4, network.HiddenNeuron),
		network.NewNNode(5, network.HiddenNeuron), network.NewNNode(6, network.OutputNeuron),
	}
	ins := []int{0, 1, 2, 3, 4, 0, 1, 2, 3, 4, 3, 4}
	outs := []int{3, 3, 3, 5, 5, 4, 4, 4, 4, 5, 3, 4}
	gs := make([]*genetics.Gene, len(genes))
	for i, g := range genes {
		k := i % len(ins)
		w := 0.25 * float64(i%9-4)
		if withTrait && i%2 == 0 {
			gs[i] = genetics.NewGeneWithTrait(tr, w, nodes[ins[k]], nodes[outs[k]], ins[k] >= 3 && i%5 == 0, g.Innov, g.Mut)
		} else {
			gs[i] = genetics.NewGene(w, nodes[ins[k]], nodes[outs[k]], ins[k] >= 3 && i%5 == 0, g.Innov, g.Mut)
		}
		if i%4 == 3 {
			gs[i].IsEnabled = false
		}
	}
	return genetics.NewGenome(id, traits, nodes, gs)
}

func c07Opts(in c07Input, method neat.GenomeCompatibilityMethod) *neat.Options {
	o := baseOptions()
	o.DisjointCoeff, o.ExcessCoeff, o.MutdiffCoeff = in.Dc, in.Ec, in.Mc
	o.GenCompatMethod = method
	return o
}

func c07Run(in c07Input) (c07Obs, *genetics.Genome, *genetics.Genome) {
	ga, gb := c07Genome(1, in.A, in.Trait), c07Genome(2, in.B, in.Trait)
	ol, of := c07Opts(in, neat.GenomeCompatibilityMethodLinear), c07Opts(in, neat.GenomeCompatibilityMethodFast)
	return c07Obs{
		FastAB: genetics.VC07CompatFast(ga, gb, of), FastBA: genetics.VC07CompatFast(gb, ga, of),
		LinAB: genetics.VC07CompatLinear(ga, gb, ol), LinBA: genetics.VC07CompatLinear(gb, ga, ol),
		DispLinAB: genetics.VC07Compatibility(ga, gb, ol), DispFastAB: genetics.VC07Compatibility(ga, gb, of),
	}, ga, gb
}

// c07Spec recomputes E, D, W by set logic (no walk over the two lists)
func c07Spec(a, b []c07Gene) (e, d, m int, sum float64) {
	inA, inB := map[int64]float64{}, map[int64]float64{}
	maxA, maxB := int64(math.MinInt64), int64(math.MinInt64)
	for _, g := range a {
		inA[g.Innov] = g.Mut
		if g.Innov > maxA {
			maxA = g.Innov
		}
	}
	for _, g := range b {
		inB[g.Innov] = g.Mut
		if g.Innov > maxB {
			maxB = g.Innov
		}
	}
	for _, g := range a {
		if mb, ok := inB[g.Innov]; ok {
			m++
			sum += math.Abs(g.Mut - mb)
		} else if len(b) == 0 || g.Innov > maxB {
			e++
		} else {
			d++
		}
	}
	for _, g := range b {
		if _, ok := inA[g.Innov]; ok {
			continue
		}
		if len(a) == 0 || g.Innov > maxA {
			e++
		} else {
			d++
		}
	}
	return
}

// c07Show renders observed values for result.json (encoding/json rejects NaN and Inf)
func c07Show(m map[string]float64) map[string]string {
	out := map[string]string{}
	for k, v := range m {
		out[k] = fmt.Sprintf("%g (%s)", v, F(v))
	}
	return out
}

func c07Same(x, y float64) bool {
	return x == y || (math.IsNaN(x) && math.IsNaN(y))
}

func c07GenesTerm(gs []c07Gene) string {
	it := make([]string, len(gs))
	for i, g := range gs {
		it[i] = Pair(Z(g.Innov), F(g.Mut))
	}
	return List(it)
}

func c07Term(id int, in c07Input, o c07Obs) string {
	return fmt.Sprintf("{| c07_id := %d; c07_a := %s; c07_b := %s; c07_dc := %s; c07_ec := %s; c07_mc := %s; "+
		"c07_go_fast_ab := %s; c07_go_fast_ba := %s; c07_go_lin_ab := %s; c07_go_lin_ba := %s; "+
		"c07_go_disp_lin_ab := %s; c07_go_disp_fast_ab := %s |}",
		id, c07GenesTerm(in.A), c07GenesTerm(in.B), F(in.Dc), F(in.Ec), F(in.Mc),
		F(o.FastAB), F(o.FastBA), F(o.LinAB), F(o.LinBA), F(o.DispLinAB), F(o.DispFastAB))
}

func c07Key(what string, in c07Input) string {
	ia, ib := make([]int64, len(in.A)), make([]int64, len(in.B))
	for i, g := range in.A {
		ia[i] = g.Innov
	}
	for i, g := range in.B {
		ib[i] = g.Innov
	}
	return fmt.Sprintf("compat-%s a=%v b=%v coeffs=%g/%g/%g", what, ia, ib, in.Dc, in.Ec, in.Mc)
}

// c07Oracle checks the property statement on the real code
func c07Oracle(r *Run, in c07Input, o c07Obs, ga, gb *genetics.Genome) {
	fail := func(what, msg string, obs, req interface{}) {
		if m, ok := obs.(map[string]float64); ok {
			obs = c07Show(m)
		}
		if _, err := json.Marshal(req); err != nil {
			req = fmt.Sprint(req)
		}
		r.Fail(Failure{Key: c07Key(what, in), What: msg, Input: in, Observed: obs, Required: req})
	}
	all := map[string]float64{"fast(a,b)": o.FastAB, "fast(b,a)": o.FastBA, "linear(a,b)": o.LinAB, "linear(b,a)": o.LinBA}
	// symmetry, exact (both walks visit the same genes in the same order for either argument order)
	if !c07Same(o.FastAB, o.FastBA) {
		fail("sym-fast", "fast compatibility is not symmetric", all, "fast(a,b) == fast(b,a)")
	}
	if !c07Same(o.LinAB, o.LinBA) {
		fail("sym-linear", "linear compatibility is not symmetric", all, "linear(a,b) == linear(b,a)")
	}
	// the dispatcher selects the configured method
	if !c07Same(o.DispLinAB, o.LinAB) || !c07Same(o.DispFastAB, o.FastAB) {
		fail("dispatch", "compatibility() does not return the value of the configured method",
			map[string]float64{"disp_linear": o.DispLinAB, "linear": o.LinAB, "disp_fast": o.DispFastAB, "fast": o.FastAB}, "equal")
	}
	// zero against itself and against its duplicate, both methods
	ol, of := c07Opts(in, neat.GenomeCompatibilityMethodLinear), c07Opts(in, neat.GenomeCompatibilityMethodFast)
	if !in.Unsorted {
		for name, g := range map[string]*genetics.Genome{"a": ga, "b": gb} {
			dup, err := genetics.VC07Duplicate(g, 99)
			if err != nil {
				fail("dup-error", "duplicate failed: "+err.Error(), nil, nil)
				continue
			}
			vals := map[string]float64{
				"fast(" + name + "," + name + ")": genetics.VC07CompatFast(g, g, of), "linear(" + name + "," + name + ")": genetics.VC07CompatLinear(g, g, ol),
				"fast(" + name + ",dup)": genetics.VC07CompatFast(g, dup, of), "linear(dup," + name + ")": genetics.VC07CompatLinear(dup, g, ol),
			}
			for k, v := range vals {
				if v != 0 {
					fail("self-zero", "compatibility of a genome with itself / its duplicate is not 0: "+k, vals, 0.0)
					break
				}
			}
		}
	}
	if in.Extreme {
		for _, v := range all {
			if math.IsNaN(v) || math.IsInf(v, 0) {
				r.Hist("extreme_nonfinite", "yes")
				return
			}
		}
		r.Hist("extreme_nonfinite", "no")
		return
	}
	// never NaN (finite inputs of moderate magnitude: nothing can overflow)
	for k, v := range all {
		if math.IsNaN(v) || math.IsInf(v, 0) {
			fail("nan", "compatibility is not a finite number: "+k, all, "a finite number")
			return
		}
	}
	if in.Unsorted {
		return
	}
	// the formula, recomputed by set logic
	e, d, m, sum := c07Spec(in.A, in.B)
	w := 0.0
	if m > 0 {
		w = sum / float64(m)
	}
	want := in.Ec*float64(e) + in.Dc*float64(d) + in.Mc*w
	scale := math.Abs(in.Ec)*float64(e) + math.Abs(in.Dc)*float64(d) + math.Abs(in.Mc)*w
	n := float64(len(in.A) + len(in.B) + 4)
	tol := 8 * n * scale * 0x1p-52
	req := map[string]interface{}{"E": e, "D": d, "matching": m, "W": w, "formula": want, "tolerance": tol}
	for k, v := range all {
		if math.Abs(v-want) > tol {
			fail("formula", "compatibility differs from excess_coeff*E + disjoint_coeff*D + mutdiff_coeff*W: "+k, all, req)
			return
		}
	}
	if math.Abs(o.FastAB-o.LinAB) > tol {
		fail("fast-vs-linear", "the fast and the linear method disagree", all, req)
	}
	if in.Dc >= 0 && in.Ec >= 0 && in.Mc >= 0 {
		for k, v := range all {
			if v < 0 {
				fail("negative", "negative compatibility for non-negative coefficients: "+k, all, ">= 0")
				return
			}
		}
	}
	r.Hist("E", c07Bucket(e))
	r.Hist("D", c07Bucket(d))
	r.Hist("matching", c07Bucket(m))
}

func c07Bucket(n int) string {
	switch {
	case n == 0:
		return "0"
	case n <= 2:
		return "1-2"
	case n <= 8:
		return "3-8"
	default:
		return "9+"
	}
}

func c07One(r *Run, cf *CaseFile, id int, in c07Input) {
	o, ga, gb := c07Run(in)
	if cf != nil {
		cf.Add(c07Term(id, in, o))
		r.SaveInput(id, in)
	}
	c07Oracle(r, in, o, ga, gb)
	e, d, m, _ := c07Spec(in.A, in.B)
	b, _ := json.Marshal(in)
	r.Count(string(b), !in.Unsorted && len(in.A) > 0 && len(in.B) > 0 && e+d > 0)
	r.Hist("kind", in.Kind)
	_ = m
	if len(in.A)+len(in.B) >= 3 && len(in.A)+len(in.B) <= 8 {
		r.Sample(map[string]interface{}{"input": in, "observed": c07Show(map[string]float64{
			"fast(a,b)": o.FastAB, "fast(b,a)": o.FastBA, "linear(a,b)": o.LinAB, "linear(b,a)": o.LinBA})})
	}
}

// ---- generators ----

func c07Mut(r *Run, extreme bool) float64 {
	if extreme {
		switch r.Rng.Intn(10) {
		case 0:
			return math.Copysign(math.MaxFloat64, float64(r.Rng.Intn(2))-0.5)
		case 1:
			return r.Rng.NormFloat64() * 1e307
		case 2, 3:
			return r.Rng.NormFloat64() * 1e-310
		case 4:
			return math.SmallestNonzeroFloat64 * float64(1+r.Rng.Intn(5))
		case 5, 6:
			return r.Rng.NormFloat64() * 1e300
		default:
			return r.Rng.NormFloat64() * 1e150
		}
	}
	switch r.Rng.Intn(10) {
	case 0:
		return 0
	case 1:
		return math.Copysign(0, -1)
	case 2:
		return float64(r.Rng.Intn(7) - 3)
	case 3:
		return r.Rng.NormFloat64() * 1e-3
	case 4:
		return r.Rng.NormFloat64() * 1e6
	case 5:
		return r.Rng.NormFloat64() * 1e-300 // subnormal differences
	default:
		return r.Rng.NormFloat64() * 2.5
	}
}

func c07Coeff(r *Run, extreme bool) float64 {
	if extreme && r.Rng.Intn(3) == 0 {
		return []float64{math.MaxFloat64, 1e150, 1e150, 1e-320, 1e-320, 0}[r.Rng.Intn(6)]
	}
	switch r.Rng.Intn(9) {
	case 0, 1:
		return 0
	case 2:
		return 1
	case 3:
		return 0.4
	case 4:
		return 0.5
	case 5:
		return float64(1 + r.Rng.Intn(4))
	case 6:
		return -r.Rng.Float64() * 2 // outside "non-negative": formula and symmetry still required
	default:
		return r.Rng.Float64() * 5
	}
}

// c07Ascending draws n strictly ascending numbers starting above base with gaps < maxGap
func c07Ascending(r *Run, n int, base int64, maxGap int64) []int64 {
	out := make([]int64, n)
	cur := base
	for i := range out {
		cur += 1 + r.Rng.Int63n(maxGap)
		out[i] = cur
	}
	return out
}

func c07WithMuts(r *Run, innovs []int64, extreme bool) []c07Gene {
	gs := make([]c07Gene, len(innovs))
	for i, n := range innovs {
		gs[i] = c07Gene{Innov: n, Mut: c07Mut(r, extreme)}
	}
	return gs
}

func c07Gen(r *Run, kind int) c07Input {
	extreme := kind == 7
	in := c07Input{Extreme: extreme, Trait: r.Rng.Intn(2) == 0}
	size := func() int {
		if r.Rng.Intn(4) == 0 {
			return 10 + r.Rng.Intn(30)
		}
		return 1 + r.Rng.Intn(8)
	}
	base := int64(0)
	if r.Rng.Intn(8) == 0 {
		base = int64(1)<<40 + r.Rng.Int63n(1<<20)
	}
	if r.Rng.Intn(40) == 0 {
		base = math.MaxInt64 - 5000
	}
	switch kind {
	case 0: // empty overlap
		in.Kind = "empty-overlap"
		if r.Rng.Intn(2) == 0 { // one block entirely below the other
			lo := c07Ascending(r, size(), base, 3)
			hi := c07Ascending(r, size(), lo[len(lo)-1], 3)
			in.A, in.B = c07WithMuts(r, lo, false), c07WithMuts(r, hi, false)
		} else { // interleaved, nothing shared
			all := c07Ascending(r, size()+size(), base, 3)
			var a, b []int64
			for _, n := range all {
				if r.Rng.Intn(2) == 0 {
					a = append(a, n)
				} else {
					b = append(b, n)
				}
			}
			in.A, in.B = c07WithMuts(r, a, false), c07WithMuts(r, b, false)
		}
	case 1, 7: // interleaved disjoint genes among matching ones
		in.Kind = "interleaved"
		if extreme {
			in.Kind = "extreme-floats"
		}
		all := c07Ascending(r, size()+size(), base, 4)
		var a, b []int64
		for _, n := range all {
			switch r.Rng.Intn(4) {
			case 0:
				a = append(a, n)
			case 1:
				b = append(b, n)
			default:
				a, b = append(a, n), append(b, n)
			}
		}
		in.A, in.B = c07WithMuts(r, a, extreme), c07WithMuts(r, b, extreme)
	case 2: // long excess tail after a shared or interleaved head
		in.Kind = "long-tail"
		head := c07Ascending(r, 1+r.Rng.Intn(5), base, 3)
		var a, b []int64
		for _, n := range head {
			switch r.Rng.Intn(5) {
			case 0:
				a = append(a, n)
			case 1:
				b = append(b, n)
			default:
				a, b = append(a, n), append(b, n)
			}
		}
		tail := c07Ascending(r, 5+r.Rng.Intn(60), head[len(head)-1], 3)
		a = append(a, tail...)
		if r.Rng.Intn(3) == 0 { // the other genome has a shorter tail of its own, interleaved with the long one
			k := 1 + r.Rng.Intn(4)
			if k > len(tail)-1 {
				k = len(tail) - 1
			}
			for i := 0; i < k; i++ {
				if tail[i+1]-tail[i] > 1 {
					b = append(b, tail[i]+1)
				}
			}
		}
		in.A, in.B = c07WithMuts(r, a, false), c07WithMuts(r, b, false)
	case 3: // one genome is a prefix of the other
		in.Kind = "prefix"
		all := c07Ascending(r, size(), base, 3)
		k := r.Rng.Intn(len(all) + 1)
		in.A = c07WithMuts(r, all, false)
		in.B = make([]c07Gene, k)
		copy(in.B, in.A[:k])
		if r.Rng.Intn(2) == 0 {
			for i := range in.B {
				in.B[i].Mut = c07Mut(r, false)
			}
		}
	case 4: // equal innovation lists
		in.Kind = "equal-innovations"
		all := c07Ascending(r, size(), base, 3)
		in.A = c07WithMuts(r, all, false)
		in.B = c07WithMuts(r, all, false)
		if r.Rng.Intn(3) == 0 {
			copy(in.B, in.A)
		}
	case 5: // empty gene lists
		in.Kind = "empty-list"
		in.A = []c07Gene{}
		in.B = []c07Gene{}
		if r.Rng.Intn(4) != 0 {
			in.B = c07WithMuts(r, c07Ascending(r, size(), base, 3), false)
		}
	case 6: // sparse numbers, large gaps
		in.Kind = "sparse"
		if base > 1<<61 {
			base = 0
		}
		pool := c07Ascending(r, 6+r.Rng.Intn(20), base, 1<<30)
		var a, b []int64
		for _, n := range pool {
			x := r.Rng.Intn(3)
			if x != 0 {
				a = append(a, n)
			}
			if x != 1 {
				b = append(b, n)
			}
		}
		in.A, in.B = c07WithMuts(r, a, false), c07WithMuts(r, b, false)
	case 8: // not sorted / repeated numbers: outside the quantifier, model must still agree
		in.Kind = "unsorted"
		in.Unsorted = true
		na, nb := 1+r.Rng.Intn(7), 1+r.Rng.Intn(7)
		in.A, in.B = make([]c07Gene, na), make([]c07Gene, nb)
		for i := range in.A {
			in.A[i] = c07Gene{Innov: int64(r.Rng.Intn(9)), Mut: c07Mut(r, false)}
		}
		for i := range in.B {
			in.B[i] = c07Gene{Innov: int64(r.Rng.Intn(9)), Mut: c07Mut(r, false)}
		}
	}
	if in.A == nil {
		in.A = []c07Gene{}
	}
	if in.B == nil {
		in.B = []c07Gene{}
	}
	if r.Rng.Intn(2) == 0 {
		in.A, in.B = in.B, in.A
	}
	in.Dc, in.Ec, in.Mc = c07Coeff(r, extreme), c07Coeff(r, extreme), c07Coeff(r, extreme)
	if r.Rng.Intn(10) == 0 {
		// innovation numbers from both ends of the int64 range in one pair (a difference of two of them does not fit
		// an int64): a negative first gene on one side, a gene near MaxInt64 on the other or on both
		lowA := c07Gene{Innov: -2 - r.Rng.Int63n(1000), Mut: c07Mut(r, false)}
		if len(in.A) == 0 || in.A[0].Innov > lowA.Innov {
			in.A = append([]c07Gene{lowA}, in.A...)
		}
		high := c07Gene{Innov: math.MaxInt64 - r.Rng.Int63n(3), Mut: c07Mut(r, false)}
		if len(in.B) == 0 || in.B[len(in.B)-1].Innov < high.Innov {
			in.B = append(in.B, high)
		}
		if r.Rng.Intn(2) == 0 && (len(in.A) == 0 || in.A[len(in.A)-1].Innov < high.Innov) {
			in.A = append(in.A, c07Gene{Innov: high.Innov, Mut: c07Mut(r, false)})
		}
		in.Kind += "+int64-range"
	}
	return in
}

func runC07(r *Run) error {
	r.Res.Rule = "pairs of real genomes built from (innovation, mutation number) lists: every pair of subsets of {1..4} (256 pairs), then random pairs " +
		"in the families empty-overlap, interleaved, long-tail, prefix, equal-innovations, empty-list, sparse, extreme-floats, unsorted; coefficients incl. 0 and negative; " +
		"both methods, both argument orders, dispatcher; non-trivial = sorted, both genomes non-empty and at least one non-matching gene; distinct by input"
	id, shard, perShard := 0, 0, 0
	imports := "Res F64 Compat C07Cases"
	cf := r.NewCaseFile(shard, imports, "c07_case")
	add := func(in c07Input) {
		if perShard >= 1200 {
			cf.Close("c07_mismatches")
			shard++
			cf = r.NewCaseFile(shard, imports, "c07_case")
			perShard = 0
		}
		c07One(r, cf, id, in)
		id++
		perShard++
	}
	// the witnesses of the repaired defect first
	add(c07Input{Kind: "witness", A: []c07Gene{{1, 1.5}, {3, -0.5}}, B: []c07Gene{{2, 0}, {4, 1}}, Dc: 1, Ec: 1, Mc: 0.4})
	add(c07Input{Kind: "witness", A: []c07Gene{{1, 1}, {2, 1}, {5, 1}, {6, 1}}, B: []c07Gene{{1, 2}, {3, 1}}, Dc: 1, Ec: 1, Mc: 0.4})
	// every pair of subsets of {1,2,3,4}
	for ma := 0; ma < 16; ma++ {
		for mb := 0; mb < 16; mb++ {
			in := c07Input{Kind: "subsets-of-4", A: []c07Gene{}, B: []c07Gene{}, Trait: (ma+mb)%2 == 0}
			for k := 0; k < 4; k++ {
				if ma>>k&1 == 1 {
					in.A = append(in.A, c07Gene{int64(k + 1), c07Mut(r, false)})
				}
				if mb>>k&1 == 1 {
					in.B = append(in.B, c07Gene{int64(k + 1), c07Mut(r, false)})
				}
			}
			in.Dc, in.Ec, in.Mc = c07Coeff(r, false), c07Coeff(r, false), c07Coeff(r, false)
			if (ma+mb)%3 == 0 { // distinct primes make E, D and W separately visible in the value
				in.Dc, in.Ec, in.Mc = 3, 7, 0.5
			}
			add(in)
		}
	}
	n := r.N(2000, 60000)
	for i := 0; i < n; i++ {
		kind := i % 9
		add(c07Gen(r, kind))
	}
	cf.Close("c07_mismatches")
	r.Note("GOAMD64=v1 build: the Go compiler emits no fused multiply-add on amd64, so the float instance of the model is compared bit for bit")
	return nil
}

func replayC07(r *Run, input []byte) error {
	var in c07Input
	if err := json.Unmarshal(input, &in); err != nil {
		return err
	}
	c07One(r, nil, 0, in)
	return nil
}
