package main

// Quota-loop translator for C09 / C02 (`neatverif translate quotaloop -out <dir>` writes <dir>/QuotaLoop.v).
//
// Parses neat/genetics/species.go, finds `func (s *Species) countOffspring(skim float64) (int, float64)` and translates
// its BODY, construct by construct, into
//
//	Definition gen_count_offspring (exps : list float) (v_skim : float) : Z * float := ...
//
// where `exps` is the list of the members' ExpectedOffspring values in the order of s.Organisms -- the only thing the
// loop may read from the receiver and from an organism (anything else is an error).  proofs/QuotaLoopAgree.v (checked
// in) proves the generated function equal to the hand-written `count_offspring_gen float_qnum` of model/Population.v,
// so an edit of the loop in the source breaks a proof obligation on the next run.
//
// Subset (everything else: error with the source position, non-zero exit):
//   - locals of type float64 and int: `var a, b T`, `var a T = e`, `x := e` (an untyped integer constant makes an int,
//     an untyped float constant a float64), `=`, `+= -= *=` (and `/=` on float64 only), `++`/`--`;
//   - float64 expressions: literals / constant expressions (evaluated exactly with go/constant and rounded once, as the
//     compiler does), unary minus, + - * /, float64(constant), math.Floor(x) (the model's [ffloor]),
//     math.Mod(x, 1.0) with the constant 1 as divisor only (the model's [fmod1]), `o.ExpectedOffspring` of the range
//     variable;
//   - int expressions: int locals, integer constants, unary minus, + - *, and int(<float64 expression>), which is
//     F64.f_trunc_Z (Go on amd64: CVTTSD2SQ, math.MinInt64 when out of range or NaN);
//   - conditions: < <= > >= == != between float64 values or between ints, && || !;
//   - statements: the above, blocks, if/else without init, exactly `for _, o := range s.Organisms {...}` (not nested,
//     no return/break/continue inside; every enclosing variable assigned in the body is threaded through a fold_left),
//     `return <int>, <float64>`.
//
// NOT MODELLED (the same abstraction as model/Population.v, documented there): Go's int arithmetic wraps modulo 2^64,
// the generated Z arithmetic does not.  float64 arithmetic is IEEE binary64 without fused multiply-add (amd64).

import (
	"bufio"
	"fmt"
	"go/ast"
	"go/constant"
	"go/parser"
	"go/token"
	"math"
	"os"
	"path/filepath"
	"strconv"
	"strings"
)

func init() { translators["quotaloop"] = c09TranslateQuotaLoop }

type c09qKind int

const (
	c09qFloat c09qKind = iota
	c09qInt
	c09qConst
	c09qBool
)

func (k c09qKind) String() string {
	return [...]string{"float64", "int", "untyped constant", "bool"}[k]
}

type c09qVal struct {
	kind    c09qKind
	code    string
	cv      constant.Value
	isFloat bool
	src     string
}

type c09qVar struct {
	kind  c09qKind // c09qFloat or c09qInt
	depth int
}

type c09qEnv struct {
	vars    map[string]c09qVar
	depth   int
	inLoop  bool
	loopVar string // range variable (an *Organism): only loopVar.ExpectedOffspring may be read
}

func (e c09qEnv) with(name string, v c09qVar) c09qEnv {
	m := make(map[string]c09qVar, len(e.vars)+1)
	for k, x := range e.vars {
		m[k] = x
	}
	m[name] = v
	r := e
	r.vars = m
	return r
}
func (e c09qEnv) push() c09qEnv { r := e; r.depth++; return r }
func (e c09qEnv) popTo(outer c09qEnv) c09qEnv {
	m := make(map[string]c09qVar, len(e.vars))
	for k, x := range e.vars {
		if x.depth <= outer.depth {
			m[k] = x
		}
	}
	r := outer
	r.vars = m
	return r
}

type c09qError struct{ msg string }

type c09qTr struct {
	fset     *token.FileSet
	src      []byte
	recv     string // receiver name: only recv.Organisms as the range operand
	reserved map[string]bool
}

const c09qElem = "v_o_ExpectedOffspring" // the fold's element: the current organism's ExpectedOffspring

func (t *c09qTr) fail(n ast.Node, format string, a ...interface{}) {
	pos := "?"
	if n != nil {
		pos = t.fset.Position(n.Pos()).String()
	}
	panic(c09qError{fmt.Sprintf("%s: in countOffspring: %s", pos, fmt.Sprintf(format, a...))})
}

func (t *c09qTr) text(n ast.Node) string {
	a, b := t.fset.Position(n.Pos()).Offset, t.fset.Position(n.End()).Offset
	if a < 0 || b > len(t.src) || a > b {
		return ""
	}
	return string(t.src[a:b])
}

func (t *c09qTr) coqVar(id *ast.Ident) string {
	if !c18bIdentRe.MatchString(id.Name) {
		t.fail(id, "identifier %q is not plain ASCII", id.Name)
	}
	return "v_" + id.Name
}

func (t *c09qTr) constFloat(n ast.Node, v c09qVal) float64 {
	f, _ := constant.Float64Val(constant.ToFloat(v.cv))
	if math.IsInf(f, 0) || math.IsNaN(f) {
		t.fail(n, "constant %s overflows float64", v.src)
	}
	if f == 0 {
		f = 0 // Go constants have no negative zero
	}
	return f
}

func (t *c09qTr) constInt(n ast.Node, v c09qVal) string {
	iv := constant.ToInt(v.cv)
	if iv.Kind() != constant.Int {
		t.fail(n, "constant %s is not an integer", v.src)
	}
	i, ok := constant.Int64Val(iv)
	if !ok {
		t.fail(n, "integer constant %s does not fit int", v.src)
	}
	return fmt.Sprintf("(%d)%%Z", i)
}

func (t *c09qTr) asFloat(n ast.Node, v c09qVal) string {
	switch v.kind {
	case c09qFloat:
		return v.code
	case c09qConst:
		return c18bFloatLit(t.constFloat(n, v), v.src)
	}
	t.fail(n, "expression %q has type %s where a float64 is needed", t.text(n), v.kind)
	return ""
}

func (t *c09qTr) asInt(n ast.Node, v c09qVal) string {
	switch v.kind {
	case c09qInt:
		return v.code
	case c09qConst:
		return t.constInt(n, v)
	}
	t.fail(n, "expression %q has type %s where an int is needed", t.text(n), v.kind)
	return ""
}

func (t *c09qTr) asBool(n ast.Node, v c09qVal) string {
	if v.kind != c09qBool {
		t.fail(n, "expression %q is not a condition built from comparisons", t.text(n))
	}
	return v.code
}

func (t *c09qTr) expr(e ast.Expr, env c09qEnv) c09qVal {
	switch x := e.(type) {
	case *ast.ParenExpr:
		return t.expr(x.X, env)
	case *ast.BasicLit:
		if x.Kind == token.INT || x.Kind == token.FLOAT {
			cv := constant.MakeFromLiteral(x.Value, x.Kind, 0)
			if cv.Kind() == constant.Unknown {
				t.fail(x, "cannot read numeric literal %s", x.Value)
			}
			return c09qVal{kind: c09qConst, cv: cv, isFloat: x.Kind == token.FLOAT, src: x.Value}
		}
		t.fail(x, "unsupported literal %s", x.Value)
	case *ast.Ident:
		if v, ok := env.vars[x.Name]; ok {
			return c09qVal{kind: v.kind, code: t.coqVar(x)}
		}
		if x.Name == t.recv {
			t.fail(x, "the receiver %q is used other than as `range %s.Organisms`; the model's loop reads nothing else of the species", x.Name, x.Name)
		}
		if x.Name == env.loopVar && x.Name != "" {
			t.fail(x, "the organism %q is used other than as %s.ExpectedOffspring; the model's loop reads nothing else of an organism", x.Name, x.Name)
		}
		t.fail(x, "unsupported identifier %q (not a float64/int parameter or local of countOffspring)", x.Name)
	case *ast.SelectorExpr:
		if id, ok := x.X.(*ast.Ident); ok {
			if id.Name == env.loopVar && id.Name != "" {
				if x.Sel.Name == "ExpectedOffspring" {
					return c09qVal{kind: c09qFloat, code: c09qElem}
				}
				t.fail(x, "the loop reads %s of an organism; the model's loop reads ExpectedOffspring only", t.text(x))
			}
			if id.Name == t.recv {
				t.fail(x, "the loop reads %s of the species; the model's loop reads nothing but the members' ExpectedOffspring", t.text(x))
			}
		}
		t.fail(x, "unsupported selector %q", t.text(x))
	case *ast.UnaryExpr:
		v := t.expr(x.X, env)
		switch x.Op {
		case token.SUB, token.ADD:
			switch v.kind {
			case c09qConst:
				return c09qVal{kind: c09qConst, cv: constant.UnaryOp(x.Op, v.cv, 0), isFloat: v.isFloat, src: t.text(x)}
			case c09qFloat:
				if x.Op == token.ADD {
					return v
				}
				return c09qVal{kind: c09qFloat, code: "(- " + v.code + ")"}
			case c09qInt:
				if x.Op == token.ADD {
					return v
				}
				return c09qVal{kind: c09qInt, code: "(Z.opp " + v.code + ")"}
			}
			t.fail(x, "unary %s on a condition", x.Op)
		case token.NOT:
			return c09qVal{kind: c09qBool, code: "(negb " + t.asBool(x.X, v) + ")"}
		}
		t.fail(x, "unsupported unary operator %s", x.Op)
	case *ast.BinaryExpr:
		return t.binary(x, env)
	case *ast.CallExpr:
		return t.call(x, env)
	}
	t.fail(e, "unsupported expression %q (%T)", t.text(e), e)
	return c09qVal{}
}

func (t *c09qTr) binary(x *ast.BinaryExpr, env c09qEnv) c09qVal {
	a, b := t.expr(x.X, env), t.expr(x.Y, env)
	isArith := x.Op == token.ADD || x.Op == token.SUB || x.Op == token.MUL || x.Op == token.QUO
	isCmp := x.Op == token.LSS || x.Op == token.LEQ || x.Op == token.GTR || x.Op == token.GEQ || x.Op == token.EQL || x.Op == token.NEQ
	switch {
	case x.Op == token.LAND || x.Op == token.LOR:
		f := "andb"
		if x.Op == token.LOR {
			f = "orb"
		}
		return c09qVal{kind: c09qBool, code: "(" + f + " " + t.asBool(x.X, a) + " " + t.asBool(x.Y, b) + ")"}
	case !isArith && !isCmp:
		t.fail(x, "unsupported binary operator %s", x.Op)
	case a.kind == c09qBool || b.kind == c09qBool:
		t.fail(x, "operator %s applied to a condition", x.Op)
	case a.kind == c09qConst && b.kind == c09qConst:
		if isCmp {
			t.fail(x, "comparison of two constants %q is not supported", t.text(x))
		}
		isFloat := a.isFloat || b.isFloat
		op, av, bv := x.Op, a.cv, b.cv
		if isFloat {
			av, bv = constant.ToFloat(av), constant.ToFloat(bv)
		} else if op == token.QUO {
			op = token.QUO_ASSIGN // integer division of integer constants
		}
		if x.Op == token.QUO && constant.Sign(bv) == 0 {
			t.fail(x, "constant division by zero")
		}
		return c09qVal{kind: c09qConst, cv: constant.BinaryOp(av, op, bv), isFloat: isFloat, src: t.text(x)}
	}
	// at least one operand is a run-time value; the other has the same type or is a constant
	k := a.kind
	if k == c09qConst {
		k = b.kind
	}
	if (a.kind != c09qConst && a.kind != k) || (b.kind != c09qConst && b.kind != k) {
		t.fail(x, "operands of %s have types %s and %s", x.Op, a.kind, b.kind)
	}
	if k == c09qFloat {
		l, r := t.asFloat(x.X, a), t.asFloat(x.Y, b)
		switch x.Op {
		case token.ADD:
			return c09qVal{kind: c09qFloat, code: "(" + l + " + " + r + ")"}
		case token.SUB:
			return c09qVal{kind: c09qFloat, code: "(" + l + " - " + r + ")"}
		case token.MUL:
			return c09qVal{kind: c09qFloat, code: "(" + l + " * " + r + ")"}
		case token.QUO:
			return c09qVal{kind: c09qFloat, code: "(" + l + " / " + r + ")"}
		case token.LSS: // a > b is b < a: the same IEEE predicate (false on NaN either way)
			return c09qVal{kind: c09qBool, code: "(" + l + " <? " + r + ")"}
		case token.LEQ:
			return c09qVal{kind: c09qBool, code: "(" + l + " <=? " + r + ")"}
		case token.GTR:
			return c09qVal{kind: c09qBool, code: "(" + r + " <? " + l + ")"}
		case token.GEQ:
			return c09qVal{kind: c09qBool, code: "(" + r + " <=? " + l + ")"}
		case token.EQL:
			return c09qVal{kind: c09qBool, code: "(" + l + " =? " + r + ")"}
		case token.NEQ:
			return c09qVal{kind: c09qBool, code: "(negb (" + l + " =? " + r + "))"}
		}
	}
	l, r := t.asInt(x.X, a), t.asInt(x.Y, b)
	switch x.Op {
	case token.ADD:
		return c09qVal{kind: c09qInt, code: "(Z.add " + l + " " + r + ")"}
	case token.SUB:
		return c09qVal{kind: c09qInt, code: "(Z.sub " + l + " " + r + ")"}
	case token.MUL:
		return c09qVal{kind: c09qInt, code: "(Z.mul " + l + " " + r + ")"}
	case token.QUO:
		t.fail(x, "int division is not supported")
	case token.LSS:
		return c09qVal{kind: c09qBool, code: "(Z.ltb " + l + " " + r + ")"}
	case token.LEQ:
		return c09qVal{kind: c09qBool, code: "(Z.leb " + l + " " + r + ")"}
	case token.GTR:
		return c09qVal{kind: c09qBool, code: "(Z.ltb " + r + " " + l + ")"}
	case token.GEQ:
		return c09qVal{kind: c09qBool, code: "(Z.leb " + r + " " + l + ")"}
	case token.EQL:
		return c09qVal{kind: c09qBool, code: "(Z.eqb " + l + " " + r + ")"}
	case token.NEQ:
		return c09qVal{kind: c09qBool, code: "(negb (Z.eqb " + l + " " + r + "))"}
	}
	t.fail(x, "unsupported binary operator %s", x.Op)
	return c09qVal{}
}

func (t *c09qTr) call(x *ast.CallExpr, env c09qEnv) c09qVal {
	if x.Ellipsis != token.NoPos {
		t.fail(x, "variadic call")
	}
	if id, ok := x.Fun.(*ast.Ident); ok {
		if len(x.Args) != 1 {
			t.fail(x, "%s with %d arguments", id.Name, len(x.Args))
		}
		v := t.expr(x.Args[0], env)
		switch id.Name {
		case "int":
			switch v.kind {
			case c09qFloat: // amd64 CVTTSD2SQ
				return c09qVal{kind: c09qInt, code: "(f_trunc_Z " + v.code + ")"}
			case c09qInt:
				return v
			case c09qConst:
				return c09qVal{kind: c09qInt, code: t.constInt(x.Args[0], v)}
			}
		case "float64":
			switch v.kind {
			case c09qFloat:
				return v
			case c09qConst:
				return c09qVal{kind: c09qFloat, code: t.asFloat(x.Args[0], v)}
			case c09qInt:
				t.fail(x, "conversion of a run-time int to float64 is not supported")
			}
		}
		t.fail(x, "unsupported call %q (only int(..), float64(..), math.Floor(..), math.Mod(.., 1.0))", t.text(x))
	}
	sel, ok := x.Fun.(*ast.SelectorExpr)
	if ok {
		if p, ok := sel.X.(*ast.Ident); ok && p.Name == "math" {
			switch sel.Sel.Name {
			case "Floor":
				if len(x.Args) != 1 {
					t.fail(x, "math.Floor with %d arguments", len(x.Args))
				}
				return c09qVal{kind: c09qFloat, code: "(ffloor " + t.asFloat(x.Args[0], t.expr(x.Args[0], env)) + ")"}
			case "Mod":
				if len(x.Args) != 2 {
					t.fail(x, "math.Mod with %d arguments", len(x.Args))
				}
				d := t.expr(x.Args[1], env)
				if d.kind != c09qConst || t.constFloat(x.Args[1], d) != 1 {
					t.fail(x.Args[1], "math.Mod with divisor %q: the model has math.Mod(x, 1.0) only (fmod1)", t.text(x.Args[1]))
				}
				return c09qVal{kind: c09qFloat, code: "(fmod1 " + t.asFloat(x.Args[0], t.expr(x.Args[0], env)) + ")"}
			}
			t.fail(x, "math.%s has no counterpart in the model of this loop (only math.Floor and math.Mod(x, 1.0))", sel.Sel.Name)
		}
	}
	t.fail(x, "unsupported call %q (only int(..), float64(..), math.Floor(..), math.Mod(.., 1.0))", t.text(x))
	return c09qVal{}
}

func (t *c09qTr) declare(id *ast.Ident, kind c09qKind, env c09qEnv) c09qEnv {
	if t.reserved[id.Name] || id.Name == t.recv || (id.Name == env.loopVar && id.Name != "") {
		t.fail(id, "declaration of %q hides a name the translator gives a fixed meaning", id.Name)
	}
	if _, ok := env.vars[id.Name]; ok {
		t.fail(id, "declaration of %q shadows (or repeats) a variable of an enclosing scope; not supported", id.Name)
	}
	return env.with(id.Name, c09qVar{kind: kind, depth: env.depth})
}

func (t *c09qTr) typeKind(e ast.Expr) c09qKind {
	switch {
	case c18bIsIdent(e, "float64"):
		return c09qFloat
	case c18bIsIdent(e, "int"):
		return c09qInt
	}
	t.fail(e, "local variable of type %q (only float64 and int)", t.text(e))
	return 0
}

// coerce: the value as a term of the variable's kind
func (t *c09qTr) coerce(n ast.Node, v c09qVal, kind c09qKind) string {
	if kind == c09qFloat {
		return t.asFloat(n, v)
	}
	return t.asInt(n, v)
}

func (t *c09qTr) stmts(list []ast.Stmt, env c09qEnv, k func(c09qEnv) string) string {
	if len(list) == 0 {
		return k(env)
	}
	rest := func(e c09qEnv) string { return t.stmts(list[1:], e, k) }
	switch s := list[0].(type) {
	case *ast.EmptyStmt:
		return rest(env)
	case *ast.ReturnStmt:
		if env.inLoop {
			t.fail(s, "return inside the range loop is not supported")
		}
		if len(s.Results) != 2 {
			t.fail(s, "return with %d results (countOffspring returns (int, float64))", len(s.Results))
		}
		if len(list) > 1 {
			t.fail(list[1], "statement after return")
		}
		return "(" + t.asInt(s.Results[0], t.expr(s.Results[0], env)) + ", " + t.asFloat(s.Results[1], t.expr(s.Results[1], env)) + ")"
	case *ast.BlockStmt:
		return t.stmts(s.List, env.push(), func(inner c09qEnv) string { return rest(inner.popTo(env)) })
	case *ast.IfStmt:
		if s.Init != nil {
			t.fail(s.Init, "if with an init statement is not supported")
		}
		c := t.asBool(s.Cond, t.expr(s.Cond, env))
		after := func(inner c09qEnv) string { return rest(inner.popTo(env)) }
		thenT := t.stmts(s.Body.List, env.push(), after)
		var elseT string
		switch el := s.Else.(type) {
		case nil:
			elseT = rest(env)
		case *ast.BlockStmt:
			elseT = t.stmts(el.List, env.push(), after)
		case *ast.IfStmt:
			elseT = t.stmts([]ast.Stmt{el}, env, after)
		default:
			t.fail(s.Else, "unsupported else branch")
		}
		if strings.HasPrefix(thenT, "let ") || strings.HasPrefix(thenT, "if ") {
			thenT = "(" + thenT + ")"
		}
		if strings.HasPrefix(elseT, "if ") {
			return "if " + c + " then\n" + c18bIndent(thenT) + "\nelse " + elseT
		}
		return "if " + c + " then\n" + c18bIndent(thenT) + "\nelse\n" + c18bIndent(elseT)
	case *ast.DeclStmt:
		gd, ok := s.Decl.(*ast.GenDecl)
		if !ok || gd.Tok != token.VAR {
			t.fail(s, "unsupported declaration (only `var x T [= e]` with T float64 or int)")
		}
		out := ""
		cur := env
		for _, sp := range gd.Specs {
			vs := sp.(*ast.ValueSpec)
			if vs.Type == nil {
				t.fail(vs, "var without a type is not supported")
			}
			kind := t.typeKind(vs.Type)
			if len(vs.Values) != 0 && len(vs.Values) != len(vs.Names) {
				t.fail(vs, "var with %d names and %d values", len(vs.Names), len(vs.Values))
			}
			vals := make([]string, len(vs.Names))
			for i := range vs.Names {
				if len(vs.Values) == 0 {
					if kind == c09qFloat {
						vals[i] = c18bFloatLit(0, "")
					} else {
						vals[i] = "(0)%Z"
					}
					continue
				}
				vals[i] = t.coerce(vs.Values[i], t.expr(vs.Values[i], env), kind)
			}
			for i, n := range vs.Names {
				if n.Name == "_" {
					continue
				}
				cur = t.declare(n, kind, cur)
				out += "let " + t.coqVar(n) + " := " + vals[i] + " in\n"
			}
		}
		return out + rest(cur)
	case *ast.IncDecStmt:
		id, ok := s.X.(*ast.Ident)
		if !ok {
			t.fail(s, "unsupported operand of %s", s.Tok)
		}
		v := t.expr(id, env)
		one := c09qVal{kind: c09qConst, cv: constant.MakeInt64(1), src: "1"}
		var val string
		switch {
		case v.kind == c09qFloat && s.Tok == token.INC:
			val = "(" + v.code + " + " + t.asFloat(s, one) + ")"
		case v.kind == c09qFloat:
			val = "(" + v.code + " - " + t.asFloat(s, one) + ")"
		case v.kind == c09qInt && s.Tok == token.INC:
			val = "(Z.add " + v.code + " (1)%Z)"
		case v.kind == c09qInt:
			val = "(Z.sub " + v.code + " (1)%Z)"
		default:
			t.fail(s, "%s of something that is not a variable", s.Tok)
		}
		return "let " + v.code + " := " + val + " in\n" + rest(env)
	case *ast.AssignStmt:
		return t.assign(s, env, rest)
	case *ast.RangeStmt:
		return t.rangeLoop(s, env, rest)
	}
	t.fail(list[0], "unsupported statement %T (supported: var, :=, =, op=, ++/--, if/else, block, `for _, o := range s.Organisms`, return)", list[0])
	return ""
}

func (t *c09qTr) assign(s *ast.AssignStmt, env c09qEnv, rest func(c09qEnv) string) string {
	if len(s.Lhs) != 1 || len(s.Rhs) != 1 {
		t.fail(s, "assignment with %d targets and %d values (only single assignments)", len(s.Lhs), len(s.Rhs))
	}
	id, ok := s.Lhs[0].(*ast.Ident)
	if !ok {
		t.fail(s.Lhs[0], "assignment to %q: only plain local variables can be assigned (no fields, no indexing)", t.text(s.Lhs[0]))
	}
	rv := t.expr(s.Rhs[0], env)
	if id.Name == "_" {
		return rest(env)
	}
	old, exists := env.vars[id.Name]
	switch s.Tok {
	case token.DEFINE:
		var kind c09qKind
		switch rv.kind {
		case c09qFloat, c09qInt:
			kind = rv.kind
		case c09qConst:
			kind = c09qInt
			if rv.isFloat {
				kind = c09qFloat
			}
		default:
			t.fail(s.Rhs[0], "local variable of type bool is not supported")
		}
		cur := t.declare(id, kind, env) // fails on shadowing / repetition
		return "let " + t.coqVar(id) + " := " + t.coerce(s.Rhs[0], rv, kind) + " in\n" + rest(cur)
	case token.ASSIGN:
		if !exists {
			t.fail(id, "assignment to undeclared variable %q", id.Name)
		}
		return "let " + t.coqVar(id) + " := " + t.coerce(s.Rhs[0], rv, old.kind) + " in\n" + rest(env)
	case token.ADD_ASSIGN, token.SUB_ASSIGN, token.MUL_ASSIGN, token.QUO_ASSIGN:
		if !exists {
			t.fail(id, "assignment to undeclared variable %q", id.Name)
		}
		r := t.coerce(s.Rhs[0], rv, old.kind)
		v := t.coqVar(id)
		var val string
		if old.kind == c09qFloat {
			sym := map[token.Token]string{token.ADD_ASSIGN: "+", token.SUB_ASSIGN: "-", token.MUL_ASSIGN: "*", token.QUO_ASSIGN: "/"}[s.Tok]
			val = "(" + v + " " + sym + " " + r + ")"
		} else {
			fn, ok := map[token.Token]string{token.ADD_ASSIGN: "Z.add", token.SUB_ASSIGN: "Z.sub", token.MUL_ASSIGN: "Z.mul"}[s.Tok]
			if !ok {
				t.fail(s, "int division is not supported")
			}
			val = "(" + fn + " " + v + " " + r + ")"
		}
		return "let " + v + " := " + val + " in\n" + rest(env)
	}
	t.fail(s, "unsupported assignment operator %s", s.Tok)
	return ""
}

func (t *c09qTr) assigned(body *ast.BlockStmt, outer c09qEnv) []string {
	var names []string
	seen := map[string]bool{}
	add := func(e ast.Expr) {
		if id, ok := e.(*ast.Ident); ok {
			if _, ok := outer.vars[id.Name]; ok && !seen[id.Name] {
				seen[id.Name] = true
				names = append(names, id.Name)
			}
		}
	}
	ast.Inspect(body, func(n ast.Node) bool {
		switch s := n.(type) {
		case *ast.AssignStmt:
			for _, l := range s.Lhs {
				add(l)
			}
		case *ast.IncDecStmt:
			add(s.X)
		}
		return true
	})
	return names
}

func (t *c09qTr) rangeLoop(s *ast.RangeStmt, env c09qEnv, rest func(c09qEnv) string) string {
	if env.inLoop {
		t.fail(s, "nested range loop is not supported")
	}
	if s.Key != nil {
		if id, ok := s.Key.(*ast.Ident); !ok || id.Name != "_" {
			t.fail(s.Key, "range loop that binds the index is not supported (only `for _, o := range %s.Organisms`)", t.recv)
		}
	}
	sel, ok := s.X.(*ast.SelectorExpr)
	if !ok || !c18bIsIdent(sel.X, t.recv) || sel.Sel.Name != "Organisms" || t.recv == "" {
		t.fail(s.X, "range over %q; only the receiver's Organisms can be ranged over", t.text(s.X))
	}
	if s.Tok != token.DEFINE && s.Value != nil {
		t.fail(s, "range loop must declare its variable with :=")
	}
	inner := env.push()
	inner.inLoop = true
	if s.Value != nil {
		id, ok := s.Value.(*ast.Ident)
		if !ok {
			t.fail(s.Value, "unsupported range variable")
		}
		if id.Name != "_" {
			if _, clash := env.vars[id.Name]; clash || t.reserved[id.Name] || id.Name == t.recv {
				t.fail(id, "range variable %q shadows another name", id.Name)
			}
			inner.loopVar = id.Name
		}
	}
	acc := t.assigned(s.Body, env)
	if len(acc) == 0 {
		t.fail(s, "range loop assigns no variable of the enclosing function (nothing to accumulate)")
	}
	coq := make([]string, len(acc))
	for i, a := range acc {
		coq[i] = "v_" + a
	}
	tuple, pat := coq[0], coq[0]
	if len(coq) > 1 {
		tuple = "(" + strings.Join(coq, ", ") + ")"
		pat = "'" + tuple
	}
	body := t.stmts(s.Body.List, inner.push(), func(c09qEnv) string { return tuple })
	return "let " + pat + " := fold_left (fun " + pat + " " + c09qElem + " =>\n" + c18bIndent(c18bIndent(body)) + ")\n    exps " + tuple + " in\n" + rest(env)
}

// c09qCheckTypes: Organism.ExpectedOffspring is a float64, Species.Organisms is []*Organism (via `type Organisms []*Organism`)
func c09qCheckTypes(dir string) error {
	fset := token.NewFileSet()
	structs := map[string]*ast.StructType{}
	named := map[string]ast.Expr{}
	ents, err := os.ReadDir(dir)
	if err != nil {
		return err
	}
	for _, ent := range ents {
		n := ent.Name()
		if ent.IsDir() || !strings.HasSuffix(n, ".go") || strings.HasSuffix(n, "_test.go") {
			continue
		}
		f, err := parser.ParseFile(fset, filepath.Join(dir, n), nil, 0)
		if err != nil {
			return err
		}
		for _, d := range f.Decls {
			gd, ok := d.(*ast.GenDecl)
			if !ok || gd.Tok != token.TYPE {
				continue
			}
			for _, sp := range gd.Specs {
				ts := sp.(*ast.TypeSpec)
				if st, ok := ts.Type.(*ast.StructType); ok {
					structs[ts.Name.Name] = st
				} else {
					named[ts.Name.Name] = ts.Type
				}
			}
		}
	}
	field := func(st *ast.StructType, name string) ast.Expr {
		if st == nil {
			return nil
		}
		for _, f := range st.Fields.List {
			for _, n := range f.Names {
				if n.Name == name {
					return f.Type
				}
			}
		}
		return nil
	}
	if ft := field(structs["Organism"], "ExpectedOffspring"); ft == nil || !c18bIsIdent(ft, "float64") {
		return fmt.Errorf("%s: Organism.ExpectedOffspring is not a float64 field", dir)
	}
	isOrgSlice := func(e ast.Expr) bool {
		at, ok := e.(*ast.ArrayType)
		if !ok || at.Len != nil {
			return false
		}
		st, ok := at.Elt.(*ast.StarExpr)
		return ok && c18bIsIdent(st.X, "Organism")
	}
	ft := field(structs["Species"], "Organisms")
	if ft == nil {
		return fmt.Errorf("%s: Species has no field Organisms", dir)
	}
	if id, ok := ft.(*ast.Ident); ok && named[id.Name] != nil {
		ft = named[id.Name]
	}
	if !isOrgSlice(ft) {
		return fmt.Errorf("%s: Species.Organisms is not a slice of *Organism", dir)
	}
	return nil
}

func c09TranslateQuotaLoop(outDir string) (err error) {
	dir := filepath.Join(repoRoot(), "neat", "genetics")
	path := filepath.Join(dir, "species.go")
	src, err := os.ReadFile(path)
	if err != nil {
		return err
	}
	fset := token.NewFileSet()
	file, err := parser.ParseFile(fset, path, src, 0)
	if err != nil {
		return err
	}
	mathOK := false
	for _, im := range file.Imports {
		p, _ := strconv.Unquote(im.Path.Value)
		if im.Name != nil && im.Name.Name == "math" && p != "math" {
			return fmt.Errorf("%s: the name math is bound to package %q", fset.Position(im.Pos()), p)
		}
		if p == "math" && (im.Name == nil || im.Name.Name == "math") {
			mathOK = true
		}
	}
	if !mathOK {
		return fmt.Errorf("%s: package math is not imported under its own name", path)
	}
	var fd *ast.FuncDecl
	for _, d := range file.Decls {
		f, ok := d.(*ast.FuncDecl)
		if !ok || f.Name.Name != "countOffspring" || f.Recv == nil || len(f.Recv.List) != 1 {
			continue
		}
		st, ok := f.Recv.List[0].Type.(*ast.StarExpr)
		if !ok || !c18bIsIdent(st.X, "Species") {
			continue
		}
		if fd != nil {
			return fmt.Errorf("%s: two methods Species.countOffspring", fset.Position(f.Pos()))
		}
		fd = f
	}
	if fd == nil {
		return fmt.Errorf("%s: method Species.countOffspring not found", path)
	}
	if err := c09qCheckTypes(dir); err != nil {
		return err
	}
	t := &c09qTr{fset: fset, src: src, reserved: map[string]bool{
		"math": true, "int": true, "float64": true, "len": true, "true": true, "false": true, "nil": true, "iota": true, "exps": true}}
	defer func() {
		if p := recover(); p != nil {
			if e, ok := p.(c09qError); ok {
				err = fmt.Errorf("%s", e.msg)
				return
			}
			panic(p)
		}
	}()
	if fd.Body == nil {
		t.fail(fd, "method without a body")
	}
	if len(fd.Recv.List[0].Names) == 1 && fd.Recv.List[0].Names[0].Name != "_" {
		t.recv = fd.Recv.List[0].Names[0].Name
	}
	ft := fd.Type
	if ft.Params == nil || len(ft.Params.List) != 1 || len(ft.Params.List[0].Names) != 1 || !c18bIsIdent(ft.Params.List[0].Type, "float64") {
		t.fail(ft, "signature is not countOffspring(skim float64)")
	}
	if ft.Results == nil || len(ft.Results.List) != 2 || len(ft.Results.List[0].Names) != 0 || len(ft.Results.List[1].Names) != 0 ||
		!c18bIsIdent(ft.Results.List[0].Type, "int") || !c18bIsIdent(ft.Results.List[1].Type, "float64") {
		t.fail(ft, "results are not the unnamed pair (int, float64)")
	}
	param := ft.Params.List[0].Names[0]
	if t.reserved[param.Name] || param.Name == t.recv || param.Name == "_" {
		t.fail(param, "unsupported parameter name %q", param.Name)
	}
	env := c09qEnv{vars: map[string]c09qVar{param.Name: {kind: c09qFloat, depth: 0}}}
	term := t.stmts(fd.Body.List, env.push(), func(c09qEnv) string {
		t.fail(fd.Body, "control reaches the end of the function without a return")
		return ""
	})
	nLoops := 0
	ast.Inspect(fd.Body, func(n ast.Node) bool {
		if _, ok := n.(*ast.RangeStmt); ok {
			nLoops++
		}
		return true
	})
	if nLoops != 1 {
		t.fail(fd.Body, "the body has %d range loops over the members; the model has exactly one", nLoops)
	}

	if err = os.MkdirAll(outDir, 0o755); err != nil {
		return err
	}
	tmp := filepath.Join(outDir, "QuotaLoop.v.tmp")
	out, err := os.Create(tmp)
	if err != nil {
		return err
	}
	w := bufio.NewWriter(out)
	fmt.Fprintf(w, "(* GENERATED by `neatverif translate quotaloop` from neat/genetics/species.go -- do not edit.\n")
	fmt.Fprintf(w, "   The body of Species.countOffspring translated construct by construct (harness/c09_translate.go).\n")
	fmt.Fprintf(w, "   exps is the list of o.ExpectedOffspring for o in s.Organisms, in order; v_<name> is the Go variable <name>;\n")
	fmt.Fprintf(w, "   %s is o.ExpectedOffspring of the current member; int(x) is F64.f_trunc_Z (amd64), math.Floor is\n", c09qElem)
	fmt.Fprintf(w, "   Population.ffloor, math.Mod(x, 1.0) is Population.fmod1; Go ints are unbounded integers here (no wrap-around).\n")
	fmt.Fprintf(w, "   proofs/QuotaLoopAgree.v proves it equal to [count_offspring_gen float_qnum] of model/Population.v. *)\n")
	fmt.Fprintf(w, "From Coq Require Import ZArith List Bool Floats.\nFrom NeatModel Require Import F64 Population.\nImport ListNotations.\nOpen Scope float_scope.\n\n")
	fmt.Fprintf(w, "(* neat/genetics/species.go:%d  func (%s *Species) countOffspring(%s float64) (int, float64) *)\n", fset.Position(fd.Pos()).Line, t.recv, param.Name)
	fmt.Fprintf(w, "Definition gen_count_offspring (exps : list float) (%s : float) : Z * float :=\n%s.\n", t.coqVar(param), c18bIndent(term))
	if err = w.Flush(); err != nil {
		return err
	}
	if err = out.Close(); err != nil {
		return err
	}
	dst := filepath.Join(outDir, "QuotaLoop.v")
	if old, e := os.ReadFile(dst); e == nil {
		if nw, e2 := os.ReadFile(tmp); e2 == nil && string(old) == string(nw) {
			return os.Remove(tmp)
		}
	}
	return os.Rename(tmp, dst)
}
