package main

// C18: activation functions match their definitions, ranges and names.
//
// The runner (1) compares the activation registry extracted from the source text with the running
// factory, exhaustively over the 256 type codes and over registered / mutated / empty names, (2) runs
// every registered scalar activation over boundary families and random doubles, (3) runs the module
// activations over random vectors, and writes everything it observed -- including the result of every
// math.Exp/Tanh/Sin/Pow call the source makes, recomputed here exactly as the source computes it --
// as cases for the Coq model.  Independently of the model, a Go-side oracle checks the property
// statement itself: finite, inside the documented range, close to the closed form evaluated with
// 320-bit arithmetic, monotone where the property says so, product / max / min for the modules,
// names <-> codes one-to-one, errors for everything unknown.

import (
	"encoding/json"
	"fmt"
	"math"
	"math/big"
	"sort"
	"strconv"
	"strings"

	neatmath "github.com/yaricom/goNEAT/v4/neat/math"
	"github.com/yaricom/goNEAT/v4/neat/network"
)

func init() {
	runners["C18"] = runC18
	replayers["C18"] = replayC18
}

// ---------------------------------------------------------------------------------------------
// high-precision reference arithmetic
// ---------------------------------------------------------------------------------------------

const c18Prec = 320

func c18Big(x float64) *big.Float { return new(big.Float).SetPrec(c18Prec).SetFloat64(x) }
func c18BigS(s string) *big.Float {
	f, _, err := big.ParseFloat(s, 10, c18Prec, big.ToNearestEven)
	if err != nil {
		panic(err)
	}
	return f
}
func c18Add(a, b *big.Float) *big.Float { return new(big.Float).SetPrec(c18Prec).Add(a, b) }
func c18Sub(a, b *big.Float) *big.Float { return new(big.Float).SetPrec(c18Prec).Sub(a, b) }
func c18Mul(a, b *big.Float) *big.Float { return new(big.Float).SetPrec(c18Prec).Mul(a, b) }
func c18Quo(a, b *big.Float) *big.Float { return new(big.Float).SetPrec(c18Prec).Quo(a, b) }
func c18Neg(a *big.Float) *big.Float    { return new(big.Float).SetPrec(c18Prec).Neg(a) }

// c18Exp is exp(a) by scaling and squaring of the Taylor series; |a| is clamped to 4000 (far beyond
// the binary64 exponent range; big.Float has no such limit)
func c18Exp(a *big.Float) *big.Float {
	lim := c18Big(4000)
	if a.Cmp(lim) > 0 {
		a = lim
	} else if a.Cmp(c18Neg(lim)) < 0 {
		a = c18Neg(lim)
	}
	if a.Sign() == 0 {
		return c18Big(1)
	}
	m := a.MantExp(nil) + 10 // |a| < 2^MantExp
	if m < 0 {
		m = 0
	}
	y := new(big.Float).SetPrec(c18Prec).SetMantExp(a, -m)
	sum, term := c18Big(1), c18Big(1)
	for n := 1; n <= 40; n++ {
		term = c18Quo(c18Mul(term, y), c18Big(float64(n)))
		sum = c18Add(sum, term)
	}
	for i := 0; i < m; i++ {
		sum = c18Mul(sum, sum)
	}
	return sum
}

// c18Ord maps a float64 to an integer such that consecutive doubles map to consecutive integers
func c18Ord(x float64) int64 {
	b := int64(math.Float64bits(x))
	if b < 0 {
		return math.MinInt64 - b // -0 -> 0, negative values descend
	}
	return b
}

// c18UlpDist is the number of doubles between a and b (0 when equal; -0 and +0 coincide)
func c18UlpDist(a, b float64) float64 {
	oa, ob := c18Ord(a), c18Ord(b)
	if (oa >= 0) == (ob >= 0) {
		d := oa - ob
		if d < 0 {
			d = -d
		}
		return float64(d)
	}
	// opposite signs: exact whenever both are within 2^53 doubles of zero, otherwise only large
	return math.Abs(float64(oa)) + math.Abs(float64(ob))
}

func c18Hex(x float64) string {
	switch {
	case math.IsNaN(x):
		return "NaN"
	case math.IsInf(x, 1):
		return "+Inf"
	case math.IsInf(x, -1):
		return "-Inf"
	}
	return strconv.FormatFloat(x, 'x', -1, 64)
}

func c18ParseHex(s string) float64 {
	switch s {
	case "NaN":
		return math.NaN()
	case "+Inf":
		return math.Inf(1)
	case "-Inf":
		return math.Inf(-1)
	}
	v, err := strconv.ParseFloat(s, 64)
	if err != nil {
		panic(err)
	}
	return v
}

// ---------------------------------------------------------------------------------------------
// what the property documents about each type code
// ---------------------------------------------------------------------------------------------

type c18Call struct {
	Fn      int // 1 Exp, 2 Tanh, 3 Sin, 4 Pow
	A, B, R float64
}

type c18Spec struct {
	Code     int
	Const    string    // identifier of the type constant == expected registered name
	Lo, Hi   float64   // documented range (closed in binary64)
	Values   []float64 // when non-nil: the only values allowed
	Mono     bool      // the property demands monotone non-decreasing
	LibmFree bool
	// closed form at high precision, and the condition number of the libm argument (for the tolerance)
	Ref func(x float64) (*big.Float, float64)
	// permitted distance to the closed form: ulps*(1+amp) units in the last place, or AbsTol absolutely
	Ulps   float64
	AbsTol float64
	// the libm calls the source makes for input x, computed exactly as the source computes them
	Calls func(x float64) []c18Call
}

var (
	c18KSteep = c18BigS("4.924273")
	c18KShift = c18BigS("2.4621365")
)

// 1/(1+exp(-(k x + c)))
func c18SigmoidRef(k, c *big.Float) func(x float64) (*big.Float, float64) {
	return func(x float64) (*big.Float, float64) {
		arg := c18Neg(c18Add(c18Mul(k, c18Big(x)), c))
		a, _ := arg.Float64()
		return c18Quo(c18Big(1), c18Add(c18Big(1), c18Exp(arg))), math.Min(math.Abs(a), 800)
	}
}

func c18Poly(x float64, bp float64, scale string) *big.Float {
	X, BP, S := c18Big(x), c18Big(bp), c18BigS(scale)
	switch {
	case x < -bp:
		return c18Big(0)
	case x < 0:
		t := c18Add(X, BP)
		return c18Mul(c18Mul(t, t), S)
	case x < bp:
		t := c18Sub(X, BP)
		return c18Sub(c18Big(1), c18Mul(c18Mul(t, t), S))
	}
	return c18Big(1)
}

func c18ExpCall(arg float64) []c18Call { return []c18Call{{1, arg, 0, math.Exp(arg)}} }

var c18Specs = []c18Spec{
	{Code: 1, Const: "SigmoidPlainActivation", Lo: 0, Hi: 1, Mono: true, Ulps: 4, AbsTol: 1e-300,
		Ref:   c18SigmoidRef(c18Big(1), c18Big(0)),
		Calls: func(input float64) []c18Call { return c18ExpCall(-input) }},
	{Code: 2, Const: "SigmoidReducedActivation", Lo: 0, Hi: 1, Mono: true, Ulps: 4, AbsTol: 1e-300,
		Ref:   c18SigmoidRef(c18BigS("0.5"), c18Big(0)),
		Calls: func(input float64) []c18Call { return c18ExpCall(-0.5 * input) }},
	{Code: 3, Const: "SigmoidBipolarActivation", Lo: -1, Hi: 1, Mono: true, Ulps: 4, AbsTol: 0x1p-51,
		Ref: func(x float64) (*big.Float, float64) {
			s, amp := c18SigmoidRef(c18KSteep, c18Big(0))(x)
			return c18Sub(c18Mul(c18Big(2), s), c18Big(1)), amp
		},
		Calls: func(input float64) []c18Call { return c18ExpCall(-4.924273 * input) }},
	{Code: 4, Const: "SigmoidSteepenedActivation", Lo: 0, Hi: 1, Mono: true, Ulps: 4, AbsTol: 1e-300,
		Ref:   c18SigmoidRef(c18KSteep, c18Big(0)),
		Calls: func(input float64) []c18Call { return c18ExpCall(-4.924273 * input) }},
	{Code: 5, Const: "SigmoidApproximationActivation", Lo: 0, Hi: 1, Mono: true, LibmFree: true, Ulps: 4,
		Ref: func(x float64) (*big.Float, float64) { return c18Poly(x, 4, "0.03125"), 0 }},
	{Code: 6, Const: "SigmoidSteepenedApproximationActivation", Lo: 0, Hi: 1, Mono: true, LibmFree: true, Ulps: 4,
		Ref: func(x float64) (*big.Float, float64) { return c18Poly(x, 1, "0.5"), 0 }},
	{Code: 7, Const: "SigmoidInverseAbsoluteActivation", Lo: 0, Hi: 1, Mono: true, LibmFree: true, Ulps: 4, AbsTol: 0x1p-52,
		Ref: func(x float64) (*big.Float, float64) {
			X := c18Big(x)
			ax := new(big.Float).SetPrec(c18Prec).Abs(X)
			return c18Add(c18BigS("0.5"), c18Mul(c18Quo(X, c18Add(c18Big(1), ax)), c18BigS("0.5"))), 0
		}},
	{Code: 8, Const: "SigmoidLeftShiftedActivation", Lo: 0, Hi: 1, Mono: true, Ulps: 4, AbsTol: 1e-300,
		Ref:   c18SigmoidRef(c18Big(1), c18KShift),
		Calls: func(input float64) []c18Call { return c18ExpCall(-input - 2.4621365) }},
	{Code: 9, Const: "SigmoidLeftShiftedSteepenedActivation", Lo: 0, Hi: 1, Mono: true, Ulps: 4, AbsTol: 1e-300,
		Ref:   c18SigmoidRef(c18KSteep, c18KShift),
		Calls: func(input float64) []c18Call { return c18ExpCall(-(4.924273*input + 2.4621365)) }},
	{Code: 10, Const: "SigmoidRightShiftedSteepenedActivation", Lo: 0, Hi: 1, Mono: true, Ulps: 4, AbsTol: 1e-300,
		Ref:   c18SigmoidRef(c18KSteep, c18Neg(c18KShift)),
		Calls: func(input float64) []c18Call { return c18ExpCall(-(4.924273*input - 2.4621365)) }},
	{Code: 11, Const: "TanhActivation", Lo: -1, Hi: 1, Mono: true, Ulps: 6, AbsTol: 1e-300,
		Ref: func(x float64) (*big.Float, float64) {
			a := c18Mul(c18BigS("0.9"), c18Big(x))
			af, _ := a.Float64()
			if math.Abs(af) < 1e-25 {
				return a, 0 // tanh a = a - a^3/3 + ...
			}
			e2 := c18Exp(c18Mul(c18Big(2), a))
			return c18Sub(c18Big(1), c18Quo(c18Big(2), c18Add(e2, c18Big(1)))), 0
		},
		Calls: func(input float64) []c18Call { a := 0.9 * input; return []c18Call{{2, a, 0, math.Tanh(a)}} }},
	{Code: 12, Const: "GaussianBipolarActivation", Lo: -1, Hi: 1, Ulps: 4, AbsTol: 0x1p-51,
		Ref: func(x float64) (*big.Float, float64) {
			t := c18Mul(c18Big(x), c18BigS("2.5"))
			arg := c18Neg(c18Mul(t, t))
			a, _ := arg.Float64()
			return c18Sub(c18Mul(c18Big(2), c18Exp(arg)), c18Big(1)), math.Min(math.Abs(a), 800)
		},
		Calls: func(input float64) []c18Call {
			p := math.Pow(input*2.5, 2.0)
			return []c18Call{{4, input * 2.5, 2.0, p}, {1, -p, 0, math.Exp(-p)}}
		}},
	{Code: 13, Const: "GaussianActivation", Lo: 0, Hi: 1, Ulps: 4, AbsTol: 1e-300,
		Ref: func(x float64) (*big.Float, float64) {
			arg := c18Neg(c18Mul(c18Big(x), c18Big(x)))
			a, _ := arg.Float64()
			return c18Exp(arg), math.Min(math.Abs(a), 800)
		},
		Calls: func(input float64) []c18Call {
			p := math.Pow(input, 2.0)
			return []c18Call{{4, input, 2.0, p}, {1, -p, 0, math.Exp(-p)}}
		}},
	{Code: 14, Const: "LinearActivation", Lo: math.Inf(-1), Hi: math.Inf(1), Mono: true, LibmFree: true,
		Ref: func(x float64) (*big.Float, float64) { return c18Big(x), 0 }},
	{Code: 15, Const: "LinearAbsActivation", Lo: 0, Hi: math.Inf(1), LibmFree: true,
		Ref: func(x float64) (*big.Float, float64) { return new(big.Float).SetPrec(c18Prec).Abs(c18Big(x)), 0 }},
	{Code: 16, Const: "LinearClippedActivation", Lo: -1, Hi: 1, Mono: true, LibmFree: true,
		Ref: func(x float64) (*big.Float, float64) {
			if x < -1 {
				return c18Big(-1), 0
			} else if x > 1 {
				return c18Big(1), 0
			}
			return c18Big(x), 0
		}},
	{Code: 17, Const: "NullActivation", Lo: 0, Hi: 0, Values: []float64{0}, LibmFree: true,
		Ref: func(x float64) (*big.Float, float64) { return c18Big(0), 0 }},
	{Code: 18, Const: "SignActivation", Lo: -1, Hi: 1, Values: []float64{-1, 0, 1}, LibmFree: true,
		Ref: func(x float64) (*big.Float, float64) {
			if x < 0 {
				return c18Big(-1), 0
			} else if x > 0 {
				return c18Big(1), 0
			}
			return c18Big(0), 0
		}},
	{Code: 19, Const: "SineActivation", Lo: -1, Hi: 1, Ulps: 4, AbsTol: 0x1p-50,
		Calls: func(input float64) []c18Call { a := 2.0 * input; return []c18Call{{3, a, 0, math.Sin(a)}} }},
	{Code: 20, Const: "StepActivation", Lo: 0, Hi: 1, Values: []float64{0, 1}, Mono: true, LibmFree: true,
		Ref: func(x float64) (*big.Float, float64) {
			if x < 0 {
				return c18Big(0), 0
			}
			return c18Big(1), 0
		}},
}

var c18ModuleConsts = map[int]string{21: "MultiplyModuleActivation", 22: "MaxModuleActivation", 23: "MinModuleActivation"}

func c18SpecOf(code int) *c18Spec {
	for i := range c18Specs {
		if c18Specs[i].Code == code {
			return &c18Specs[i]
		}
	}
	return nil
}

func c18Activate(code int, x float64) (float64, error) {
	return neatmath.NodeActivators.ActivateByType(x, nil, neatmath.NodeActivationType(code))
}

// ---------------------------------------------------------------------------------------------
// Go-side oracle of the statement, scalar part
// ---------------------------------------------------------------------------------------------

type c18ScalarInput struct {
	Kind string `json:"kind"` // "scalar"
	Code int    `json:"code"`
	Name string `json:"name"`
	X    string `json:"x"` // exact hex float
	Y    string `json:"y,omitempty"`
}

// c18CheckPoint: finite, in range, close to the closed form
func c18CheckPoint(r *Run, sp *c18Spec, x float64, withRef bool) {
	v, err := c18Activate(sp.Code, x)
	in := c18ScalarInput{Kind: "scalar", Code: sp.Code, Name: sp.Const, X: c18Hex(x)}
	if err != nil {
		r.Fail(Failure{Key: fmt.Sprintf("scalar-error code=%d", sp.Code), What: "a registered activation type returns an error",
			Input: in, Observed: err.Error(), Required: "a value"})
		return
	}
	if math.IsNaN(v) || math.IsInf(v, 0) {
		r.Fail(Failure{Key: fmt.Sprintf("scalar-not-finite code=%d x=%s", sp.Code, c18Hex(x)), What: sp.Const + " returns a non-finite value for a finite input with |x| <= 1e300",
			Input: in, Observed: c18Hex(v), Required: "a finite value"})
		return
	}
	if v < sp.Lo || v > sp.Hi {
		r.Fail(Failure{Key: fmt.Sprintf("scalar-out-of-range code=%d x=%s", sp.Code, c18Hex(x)), What: sp.Const + " leaves its documented range",
			Input: in, Observed: c18Hex(v), Required: fmt.Sprintf("a value in [%v, %v]", sp.Lo, sp.Hi)})
		return
	}
	if sp.Values != nil {
		ok := false
		for _, a := range sp.Values {
			if v == a {
				ok = true
			}
		}
		if !ok {
			r.Fail(Failure{Key: fmt.Sprintf("scalar-out-of-range code=%d x=%s", sp.Code, c18Hex(x)), What: sp.Const + " returns a value outside its documented value set",
				Input: in, Observed: c18Hex(v), Required: fmt.Sprint(sp.Values)})
			return
		}
	}
	if !withRef {
		return
	}
	if sp.Code == 19 {
		// sin(2x) = 2 sin x cos x
		s, c := math.Sincos(x)
		want := 2 * s * c
		if math.Abs(v-want) > sp.AbsTol {
			r.Fail(Failure{Key: fmt.Sprintf("scalar-closed-form code=%d x=%s", sp.Code, c18Hex(x)), What: sp.Const + " differs from sin(2x)",
				Input: in, Observed: c18Hex(v), Required: c18Hex(want)})
		}
		return
	}
	ref, amp := sp.Ref(x)
	want, _ := ref.Float64()
	if sp.LibmFree && sp.Code != 5 && sp.Code != 6 && sp.Code != 7 {
		// no rounding at all in these: exact, and -0/+0 only matter numerically
		if v != want {
			r.Fail(Failure{Key: fmt.Sprintf("scalar-closed-form code=%d x=%s", sp.Code, c18Hex(x)), What: sp.Const + " differs from its definition",
				Input: in, Observed: c18Hex(v), Required: c18Hex(want)})
		}
		return
	}
	if c18UlpDist(v, want) <= sp.Ulps*(1+amp) || math.Abs(v-want) <= sp.AbsTol {
		return
	}
	r.Fail(Failure{Key: fmt.Sprintf("scalar-closed-form code=%d x=%s", sp.Code, c18Hex(x)), What: sp.Const + " differs from its closed-form definition by more than the rounding allowance",
		Input: in, Observed: c18Hex(v), Required: fmt.Sprintf("%s (closed form at 320 bits, allowance %.0f ulp or %g absolute)", c18Hex(want), sp.Ulps*(1+amp), sp.AbsTol)})
}

var c18InvabsReported = map[*Run]bool{}
var c18LibmReported = map[*Run]bool{}

// c18CheckPair: x <= y must give f(x) <= f(y); the inverse-abs sigmoid is allowed exactly one ulp (known finding)
func c18CheckPair(r *Run, sp *c18Spec, x, y float64) {
	if !(x <= y) {
		x, y = y, x
	}
	fx, e1 := c18Activate(sp.Code, x)
	fy, e2 := c18Activate(sp.Code, y)
	if e1 != nil || e2 != nil {
		return // reported by c18CheckPoint
	}
	if fx <= fy || math.IsNaN(fx) || math.IsNaN(fy) {
		return
	}
	in := c18ScalarInput{Kind: "mono", Code: sp.Code, Name: sp.Const, X: c18Hex(x), Y: c18Hex(y)}
	drop := c18UlpDist(fx, fy)
	obs := map[string]string{"f(x)": c18Hex(fx), "f(y)": c18Hex(fy), "drop": c18Hex(fx - fy), "drop_in_ulps_of_f(y)": fmt.Sprint(drop)}
	// known finding: 0.5 + t*0.5 is only accurate to one unit in the last place of its [0.5, 1) results, 2^-53;
	// a drop of at most that one ulp is rounding noise of the formula, anything larger is not
	if sp.Code == 7 && fx-fy <= 0x1p-53 {
		r.Hist("known finding", "invabs-sigmoid-1ulp-monotonicity drops observed")
		if c18InvabsReported[r] {
			return // one witness is enough; do not crowd out other failures
		}
		c18InvabsReported[r] = true
		r.Fail(Failure{Key: "invabs-sigmoid-1ulp-monotonicity", What: "inverse-abs sigmoid 0.5+(x/(1+|x|))*0.5 evaluated in binary64 drops by one ulp (2^-53, the spacing of its results in [0.5,1)) or less although x < y (rounding noise; the real function is monotone)",
			Input: in, Observed: obs, Required: "f(x) <= f(y)"})
		return
	}
	// a libm-based activation is the (provably monotone) binary64 composition around ONE library call: when the
	// library results themselves are out of order the drop belongs to math.Exp / math.Tanh, not to goNEAT's formula
	if sp.Calls != nil {
		cx, cy := sp.Calls(x), sp.Calls(y)
		if len(cx) == 1 && len(cy) == 1 {
			a, b := cx[0], cy[0]
			if a.A > b.A {
				a, b = b, a
			}
			if a.A <= b.A && a.R > b.R { // the library is not monotone on these two arguments
				fn := map[int]string{1: "exp", 2: "tanh", 3: "sin", 4: "pow"}[a.Fn]
				obs["libm"] = fmt.Sprintf("math %s(%s)=%s > %s(%s)=%s", fn, c18Hex(a.A), c18Hex(a.R), fn, c18Hex(b.A), c18Hex(b.R))
				ld := c18UlpDist(a.R, b.R)
				r.Hist("known finding", "libm-"+fn+"-1ulp-monotonicity drops observed")
				if ld == 1 {
					if c18LibmReported[r] {
						return
					}
					c18LibmReported[r] = true
					r.Fail(Failure{Key: "libm-" + fn + "-1ulp-monotonicity", What: sp.Const + " drops although x < y because Go's math." + fn + " itself is non-monotone by one ulp on the two arguments it is called with (the binary64 composition around the call is proved monotone for a monotone library function)",
						Input: in, Observed: obs, Required: "f(x) <= f(y)"})
					return
				}
				r.Fail(Failure{Key: fmt.Sprintf("libm-%s-nonmonotone code=%d x=%s y=%s", fn, sp.Code, c18Hex(x), c18Hex(y)), What: sp.Const + " drops because Go's math." + fn + " is non-monotone by more than one ulp",
					Input: in, Observed: obs, Required: "f(x) <= f(y)"})
				return
			}
		}
	}
	r.Fail(Failure{Key: fmt.Sprintf("monotonicity code=%d x=%s y=%s", sp.Code, c18Hex(x), c18Hex(y)), What: sp.Const + " is not monotonically non-decreasing",
		Input: in, Observed: obs, Required: "f(x) <= f(y) for x <= y"})
}

// ---------------------------------------------------------------------------------------------
// input families
// ---------------------------------------------------------------------------------------------

func c18Neighbours(b float64, k int) []float64 {
	out := []float64{b}
	lo, hi := b, b
	for i := 0; i < k; i++ {
		lo = math.Nextafter(lo, math.Inf(-1))
		hi = math.Nextafter(hi, math.Inf(1))
		out = append(out, lo, hi)
	}
	return out
}

// c18Boundary: breakpoints +-ulps, signed zeros, extremes of the domain, exp over/underflow thresholds, powers of two
func c18Boundary(step int) []float64 {
	var xs []float64
	xs = append(xs, 0, math.Copysign(0, -1), 1e300, -1e300, math.Nextafter(1e300, 0), -math.Nextafter(1e300, 0),
		math.SmallestNonzeroFloat64, -math.SmallestNonzeroFloat64, 0x1p-1022, -0x1p-1022, 0x0.fffffffffffffp-1022, -0x0.fffffffffffffp-1022)
	for _, b := range []float64{-4, -1, 1, 4, 0.5, -0.5, 2, -2, 3, -3, 0x1p53, -0x1p53, 0x1p52, -0x1p52, 0x1p54, -0x1p54,
		144.1, -144.1, 151.3, -151.3, 709.78, -709.78, 745.13, -745.13, 1419.56, -1419.56, 1490.26, -1490.26,
		26.6, -26.6, 27.3, -27.3, 10.9, -10.9, 10.65, -10.65, 19.06, -19.06, 21.2, -21.2,
		math.Pi / 2, -math.Pi / 2, math.Pi / 4, math.Pi, 1e22} {
		xs = append(xs, c18Neighbours(b, 2)...)
	}
	xs = append(xs, 0x1p53+2, -(0x1p53 + 2), 0x1p53+4)
	for k := -1074; k <= 996; k += step {
		p := math.Ldexp(1, k)
		xs = append(xs, p, -p)
	}
	return xs
}

func c18RandomInput(r *Run) float64 {
	for {
		var x float64
		switch r.Rng.Intn(6) {
		case 0: // any bit pattern in the domain
			x = math.Float64frombits(r.Rng.Uint64())
		case 1:
			x = (r.Rng.Float64()*2 - 1) * 6
		case 2:
			x = (r.Rng.Float64()*2 - 1) * 1.5
		case 3:
			x = r.Rng.NormFloat64() * math.Pow(10, float64(r.Rng.Intn(40)-20))
		case 4: // a few ulps off a breakpoint
			b := []float64{-4, -1, 0, 1, 4}[r.Rng.Intn(5)]
			x = b
			n := r.Rng.Intn(64)
			dir := math.Inf(1)
			if r.Rng.Intn(2) == 0 {
				dir = math.Inf(-1)
			}
			for i := 0; i < n; i++ {
				x = math.Nextafter(x, dir)
			}
		default:
			x = (r.Rng.Float64()*2 - 1) * 800
		}
		if !math.IsNaN(x) && math.Abs(x) <= 1e300 {
			return x
		}
	}
}

// ---------------------------------------------------------------------------------------------
// case emission
// ---------------------------------------------------------------------------------------------

type c18Cases struct {
	r     *Run
	cf    *CaseFile
	shard int
	n     int
	id    int
}

const c18Imports = "Res F64 ActRegistry Act C18Cases"

func (c *c18Cases) add(term func(id int) string, input interface{}) {
	if c.cf == nil || c.n >= 1500 {
		if c.cf != nil {
			c.cf.Close("c18_mismatches")
			c.shard++
		}
		c.cf = c.r.NewCaseFile(c.shard, c18Imports, "c18_case")
		c.n = 0
	}
	c.cf.Add(term(c.id))
	c.r.SaveInput(c.id, input)
	c.id++
	c.n++
}

func (c *c18Cases) close() {
	if c.cf != nil {
		c.cf.Close("c18_mismatches")
	}
}

func c18Str(s string) string { return "\"" + strings.ReplaceAll(s, "\"", "\"\"") + "\"" }

func c18Printable(s string) bool {
	for _, ch := range []byte(s) {
		if ch < 32 || ch > 126 {
			return false
		}
	}
	return true
}

// scalar case: code (any byte), input, libm calls observed, error?, output
func (c *c18Cases) scalar(code int, x float64) {
	v, err := c18Activate(code, x)
	var calls []c18Call
	if sp := c18SpecOf(code); sp != nil && sp.Calls != nil {
		calls = sp.Calls(x)
	}
	ents := make([]string, len(calls))
	for i, cl := range calls {
		ents[i] = fmt.Sprintf("(%d, %s, %s, %s)", cl.Fn, F(cl.A), F(cl.B), F(cl.R))
	}
	c.add(func(id int) string {
		return fmt.Sprintf("C18Scalar %d %d %s %s %s %s", id, code, F(x), List(ents), B(err != nil), F(v))
	}, c18ScalarInput{Kind: "scalar", Code: code, X: c18Hex(x)})
}

type c18ModuleInput struct {
	Kind   string   `json:"kind"` // "module"
	Code   int      `json:"code"`
	Inputs []string `json:"inputs"`
}

func c18HexList(xs []float64) []string {
	out := make([]string, len(xs))
	for i, x := range xs {
		out[i] = c18Hex(x)
	}
	return out
}

func (c *c18Cases) module(code int, xs []float64) {
	out, err := neatmath.NodeActivators.ActivateModuleByType(xs, nil, neatmath.NodeActivationType(code))
	c.add(func(id int) string {
		return fmt.Sprintf("C18Module %d %d %s %s %s", id, code, FList(xs), B(err != nil), FList(out))
	}, c18ModuleInput{Kind: "module", Code: code, Inputs: c18HexList(xs)})
}

// ---------------------------------------------------------------------------------------------
// registry: source table vs running factory, and the bijection itself
// ---------------------------------------------------------------------------------------------

type c18RegistryInput struct {
	Kind string `json:"kind"` // "registry"
	Code int    `json:"code,omitempty"`
	Name string `json:"name,omitempty"`
}

func c18Mutations(r *Run, name string) []string {
	out := []string{"", " ", name + " ", " " + name, strings.ToLower(name), strings.ToUpper(name), name + "x", "x" + name}
	if len(name) > 1 {
		out = append(out, name[1:], name[:len(name)-1])
		i := r.Rng.Intn(len(name))
		out = append(out, name[:i]+name[i+1:])
		j := r.Rng.Intn(len(name))
		b := []byte(name)
		b[j] = byte('a' + r.Rng.Intn(26))
		out = append(out, string(b))
		k := r.Rng.Intn(len(name) - 1)
		b = []byte(name)
		b[k], b[k+1] = b[k+1], b[k]
		out = append(out, string(b))
	}
	return out
}

func c18RegistryRun(r *Run, cs *c18Cases) error {
	reg, err := c18ParseRegistry(repoRoot() + "/neat/math/activations.go")
	if err != nil {
		return err
	}
	f := neatmath.NodeActivators
	srcName := map[int]string{}
	srcModule := map[int]bool{}
	for _, c := range reg.Calls { // later calls overwrite, as the Go maps do
		srcName[int(c.Code)] = c.Name
		srcModule[int(c.Code)] = c.Module
	}
	fail := func(key, what string, in c18RegistryInput, obs, req interface{}) {
		r.Fail(Failure{Key: key, What: what, Input: in, Observed: obs, Required: req})
	}
	seenName := map[string]int{}
	var names []string
	for code := 0; code < 256; code++ {
		t := neatmath.NodeActivationType(code)
		in := c18RegistryInput{Kind: "registry", Code: code}
		name, nerr := f.ActivationNameFromType(t)
		v, serr := f.ActivateByType(0.5, nil, t)
		mv, merr := f.ActivateModuleByType([]float64{1.5, -2.5}, nil, t)
		r.Count(fmt.Sprintf("code %d %s %v %v", code, name, serr == nil, merr == nil), nerr == nil)
		cs.add(func(id int) string {
			return fmt.Sprintf("C18NameOf %d %d %s %s", id, code, B(nerr != nil), c18Str(name))
		}, in)
		cs.scalar(code, 0.5)
		cs.module(code, []float64{1.5, -2.5})
		cs.module(code, nil)
		sn, inSrc := srcName[code]
		// the running factory against the table extracted from the source text
		if inSrc != (nerr == nil) || (inSrc && sn != name) {
			fail(fmt.Sprintf("registry-source-vs-factory code=%d", code), "the running factory disagrees with the Register calls in the source", in, name, sn)
		}
		if nerr != nil {
			// unknown type: every lookup must yield an error, with the documented sentinel values
			if name != "" || serr == nil || merr == nil || !math.IsInf(v, -1) || mv != nil {
				fail(fmt.Sprintf("registry-unknown-type-no-error code=%d", code), "an unregistered activation type does not yield an error from every lookup", in,
					map[string]interface{}{"name": name, "scalar_err": fmt.Sprint(serr), "module_err": fmt.Sprint(merr), "value": c18Hex(v)}, "errors, \"\", -Inf and nil")
			}
			continue
		}
		r.Hist("registry", "registered codes")
		// a named type is exactly one of scalar / module
		if (serr == nil) == (merr == nil) {
			fail(fmt.Sprintf("registry-scalar-module-overlap code=%d", code), "a registered type must be exactly one of scalar and module activation", in,
				map[string]interface{}{"scalar_err": fmt.Sprint(serr), "module_err": fmt.Sprint(merr)}, "exactly one succeeds")
		}
		if inSrc && srcModule[code] != (merr == nil) {
			fail(fmt.Sprintf("registry-source-vs-factory code=%d", code), "scalar/module kind differs from the source", in, merr == nil, srcModule[code])
		}
		// code -> name -> code
		back, berr := f.ActivationTypeFromName(name)
		if berr != nil || int(back) != code {
			fail(fmt.Sprintf("registry-roundtrip code=%d", code), "type_of(name_of(code)) != code", in, map[string]interface{}{"name": name, "back": int(back), "err": fmt.Sprint(berr)}, code)
		}
		if prev, dup := seenName[name]; dup {
			fail(fmt.Sprintf("registry-duplicate-name %s", name), "two activation types share one name", in, []int{prev, code}, "distinct names")
		}
		seenName[name] = code
		names = append(names, name)
		// the documented identity of each type: registered under the identifier of its constant
		want := c18ModuleConsts[code]
		if sp := c18SpecOf(code); sp != nil {
			want = sp.Const
		}
		if want != name {
			fail(fmt.Sprintf("registry-name-differs-from-constant code=%d", code), "an activation type is not registered under the name of its type constant", in, name, want)
		}
	}
	// every constant of the iota block is registered
	for _, cn := range reg.Consts {
		code := int(reg.ConstCodes[cn])
		if n, e := f.ActivationNameFromType(neatmath.NodeActivationType(code)); e != nil || n != cn {
			fail(fmt.Sprintf("registry-constant-unregistered %s", cn), "a NodeActivationType constant is not registered under its own name",
				c18RegistryInput{Kind: "registry", Code: code, Name: cn}, fmt.Sprint(n, " ", e), cn)
		}
	}
	if len(seenName) != len(c18Specs)+len(c18ModuleConsts) {
		fail("registry-size", "number of registered activation types differs from the documented list", c18RegistryInput{Kind: "registry"}, len(seenName), len(c18Specs)+len(c18ModuleConsts))
	}
	// names: registered ones from the source too (covers a name overwritten in the inverse map), then mutations
	for _, c := range reg.Calls {
		if _, ok := seenName[c.Name]; !ok {
			names = append(names, c.Name)
		}
	}
	tried := map[string]bool{}
	try := func(n string) {
		if tried[n] || !c18Printable(n) {
			return
		}
		tried[n] = true
		t, e := f.ActivationTypeFromName(n)
		in := c18RegistryInput{Kind: "registry", Name: n}
		cs.add(func(id int) string { return fmt.Sprintf("C18TypeOf %d %s %s %d", id, c18Str(n), B(e != nil), int(t)) }, in)
		code, known := seenName[n]
		r.Count("name "+n, known)
		if known {
			r.Hist("registry", "registered names")
			if e != nil || int(t) != code {
				fail("registry-roundtrip name="+n, "type_of(name) does not return the code whose name it is", in, fmt.Sprint(int(t), " ", e), code)
			} else if back, e2 := f.ActivationNameFromType(t); e2 != nil || back != n {
				fail("registry-roundtrip name="+n, "name_of(type_of(name)) != name", in, back, n)
			}
		} else {
			r.Hist("registry", "unknown names")
			if e == nil || t != math.MaxInt8 {
				fail("registry-unknown-name-no-error name="+n, "an unknown activation name does not yield an error", in, fmt.Sprint(int(t), " ", e), "error and MaxInt8")
			}
		}
	}
	for _, n := range names {
		try(n)
	}
	for _, n := range names {
		for _, m := range c18Mutations(r, n) {
			try(m)
		}
	}
	for _, n := range []string{"NEURON", "SENSOR", "HIDN", "sigmoid", "Activation", "SigmoidPlain", "0", "1"} {
		try(n)
	}
	// neat/network/common.go: node and neuron type names
	neuron := map[string]int{}
	for code := 0; code < 256; code++ {
		n1 := network.NodeTypeName(network.NodeType(code))
		n2 := network.NeuronTypeName(network.NodeNeuronType(code))
		cs.add(func(id int) string { return fmt.Sprintf("C18NodeName %d %d %s %s", id, code, c18Str(n1), c18Str(n2)) }, c18RegistryInput{Kind: "neuron", Code: code})
		back, e := network.NeuronTypeByName(n2)
		known := code <= 3
		r.Count(fmt.Sprint("neuron ", code), known)
		if known {
			if e != nil || int(back) != code {
				fail(fmt.Sprintf("neuron-roundtrip code=%d", code), "NeuronTypeByName(NeuronTypeName(t)) != t", c18RegistryInput{Kind: "neuron", Code: code, Name: n2}, fmt.Sprint(int(back), " ", e), code)
			}
			if p, dup := neuron[n2]; dup {
				fail("neuron-duplicate-name "+n2, "two neuron types share one name", c18RegistryInput{Kind: "neuron", Code: code, Name: n2}, []int{p, code}, "distinct")
			}
			neuron[n2] = code
		} else if e == nil {
			fail(fmt.Sprintf("neuron-unknown-type code=%d", code), "the name of an unknown neuron type parses back without error", c18RegistryInput{Kind: "neuron", Code: code, Name: n2}, int(back), "error")
		}
	}
	var nnames []string
	for n := range neuron {
		nnames = append(nnames, n)
	}
	sort.Strings(nnames)
	triedN := map[string]bool{}
	tryN := func(n string) {
		if triedN[n] || !c18Printable(n) {
			return
		}
		triedN[n] = true
		t, e := network.NeuronTypeByName(n)
		cs.add(func(id int) string {
			return fmt.Sprintf("C18NeuronByName %d %s %s %d", id, c18Str(n), B(e != nil), int(t))
		}, c18RegistryInput{Kind: "neuron", Name: n})
		if _, known := neuron[n]; !known && (e == nil || t != math.MaxInt8) {
			fail("neuron-unknown-name-no-error name="+n, "an unknown neuron type name does not yield an error", c18RegistryInput{Kind: "neuron", Name: n}, int(t), "error and MaxInt8")
		}
	}
	for _, n := range nnames {
		tryN(n)
		for _, m := range c18Mutations(r, n) {
			tryN(m)
		}
	}
	tryN("UNKNOWN NEURON TYPE")
	tryN("NEURON")
	return nil
}

// ---------------------------------------------------------------------------------------------
// modules
// ---------------------------------------------------------------------------------------------

func c18CheckModule(r *Run, code int, xs []float64) {
	out, err := neatmath.NodeActivators.ActivateModuleByType(xs, nil, neatmath.NodeActivationType(code))
	in := c18ModuleInput{Kind: "module", Code: code, Inputs: c18HexList(xs)}
	if err != nil || len(out) != 1 {
		r.Fail(Failure{Key: fmt.Sprintf("module-shape code=%d", code), What: "a module activation must return exactly one value and no error",
			Input: in, Observed: fmt.Sprint(len(out), " ", err), Required: "one value"})
		return
	}
	got := out[0]
	// the result belongs to the caller: the next module activation (of any type) must not change it
	if other, oerr := neatmath.NodeActivators.ActivateModuleByType([]float64{-7.5, 11.25}, nil, neatmath.NodeActivationType(21+(code-20)%3)); oerr == nil && len(other) == 1 {
		if math.Float64bits(out[0]) != math.Float64bits(got) {
			r.Fail(Failure{Key: fmt.Sprintf("module-result-overwritten code=%d", code), What: "the slice returned by a module activation was changed by the next module activation",
				Input: in, Observed: c18Hex(out[0]), Required: c18Hex(got)})
			return
		}
	}
	switch code {
	case 21:
		want := 1.0
		for i := range xs {
			want = want * xs[i]
		}
		// also against the exactly computed product (one rounding per factor is all that may separate them)
		exact := c18Big(1)
		underflow := false
		for _, x := range xs {
			exact = c18Mul(exact, c18Big(x))
			if e64, _ := exact.Float64(); e64 != 0 && math.Abs(e64) < 0x1p-960 || e64 == 0 && x != 0 {
				underflow = true // a partial product left the normal range: the running product legitimately loses bits
			}
		}
		e64, _ := exact.Float64()
		closeEnough := underflow || c18UlpDist(got, e64) <= float64(len(xs)) || math.IsInf(e64, 0) || math.IsInf(got, 0)
		if math.Float64bits(got) != math.Float64bits(want) || !closeEnough {
			r.Fail(Failure{Key: fmt.Sprintf("module-multiply inputs=%v", in.Inputs), What: "multiply module does not return the product of its inputs",
				Input: in, Observed: c18Hex(got), Required: c18Hex(want)})
		}
	case 22, 23:
		member, bound := false, true
		for _, x := range xs {
			if x == got {
				member = true
			}
			if code == 22 && x > got || code == 23 && x < got {
				bound = false
			}
		}
		if !member || !bound {
			what := "max module does not return the maximum of its inputs"
			if code == 23 {
				what = "min module does not return the minimum of its inputs"
			}
			r.Fail(Failure{Key: fmt.Sprintf("module-extremum code=%d inputs=%v", code, in.Inputs), What: what,
				Input: in, Observed: c18Hex(got), Required: "an element of the input that bounds all others"})
		}
	}
}

func c18RandomVector(r *Run) []float64 {
	n := 1 + r.Rng.Intn(6)
	if r.Rng.Intn(10) == 0 {
		n = 1
	}
	xs := make([]float64, n)
	mode := r.Rng.Intn(5)
	for i := range xs {
		switch mode {
		case 0:
			xs[i] = c18RandomInput(r)
		case 1: // small integers with ties and signed zeros
			xs[i] = float64(r.Rng.Intn(5) - 2)
			if xs[i] == 0 && r.Rng.Intn(2) == 0 {
				xs[i] = math.Copysign(0, -1)
			}
		case 2: // all very negative (below MinInt64) or all very large
			xs[i] = -math.Pow(10, 19+float64(r.Rng.Intn(280))) * (1 + r.Rng.Float64())
		case 3:
			xs[i] = math.Pow(10, 19+float64(r.Rng.Intn(280))) * (1 + r.Rng.Float64())
		default:
			xs[i] = r.Rng.NormFloat64() * 3
		}
	}
	return xs
}

// c18LibmHypotheses monitors, on the running math library, the section hypotheses under which the
// libm-based activations are proved finite / in range / monotone (supporting test: a violation is
// recorded in the evidence as a note; the property itself is judged by the oracles above)
func c18LibmHypotheses(r *Run) {
	var args []float64
	for k := 0; k < r.N(20000, 400000); k++ {
		switch r.Rng.Intn(3) {
		case 0:
			args = append(args, (r.Rng.Float64()*2-1)*800)
		case 1:
			args = append(args, (r.Rng.Float64()*2-1)*30)
		default:
			args = append(args, c18RandomInput(r))
		}
	}
	for k := 0; k < r.N(40, 400); k++ {
		x := (r.Rng.Float64()*2 - 1) * 750
		for j := 0; j < 500; j++ {
			args = append(args, x)
			x = math.Nextafter(x, math.Inf(1))
		}
	}
	args = append(args, math.Inf(1), math.Inf(-1), 0, math.Copysign(0, -1))
	sort.Float64s(args)
	bad := 0
	note := func(what string, a float64) {
		bad++
		r.Hist("libm hypotheses", "violated: "+what)
		if bad <= 5 {
			r.Note(fmt.Sprintf("libm hypothesis violated: %s at %s", what, c18Hex(a)))
		}
	}
	pe, pt := math.Inf(-1), math.Inf(-1)
	for _, a := range args {
		e, t, p := math.Exp(a), math.Tanh(a), math.Pow(a, 2.0)
		if !(e >= 0) {
			note("exp >= 0", a)
		}
		if !(e >= pe) {
			note("exp monotone", a)
		}
		if a <= 0 && !(e <= 1) {
			note("exp(a) <= 1 for a <= 0", a)
		}
		if !(t >= -1 && t <= 1) {
			note("tanh in [-1,1]", a)
		}
		if !(t >= pt) {
			note("tanh monotone", a)
		}
		if !(p >= 0) {
			note("pow(a,2) >= 0", a)
		}
		if !math.IsInf(a, 0) {
			if s := math.Sin(a); !(s >= -1 && s <= 1) {
				note("sin in [-1,1]", a)
			}
		}
		pe, pt = e, t
	}
	r.Hist("libm hypotheses", fmt.Sprintf("arguments checked"))
	r.Res.Histograms["libm hypotheses"]["arguments checked"] = len(args)
	if bad == 0 {
		r.Note(fmt.Sprintf("libm hypotheses of C18_scalar_activations_partial (exp >= 0, monotone, <= 1 on a <= 0; tanh in [-1,1], monotone; sin in [-1,1]; pow(a,2) >= 0) held on %d sorted arguments of the running math library", len(args)))
	}
}

// ---------------------------------------------------------------------------------------------
// runner
// ---------------------------------------------------------------------------------------------

func runC18(r *Run) error {
	r.Res.Rule = "registry: all 256 type codes and all registered/mutated/empty names against the running factory; scalar: every registered type on " +
		"breakpoints +-2ulp, signed zeros, +-1e300, subnormals, exp thresholds, powers of two and random doubles with |x|<=1e300 " +
		"(finite, range, closed form at 320 bits, monotone on sorted grids and on runs of consecutive doubles); modules on random vectors " +
		"(ties, signed zeros, magnitudes beyond MinInt64). non-trivial = registered code/name, or a scalar input that is non-zero; distinct by (code, input bits)"
	r.Note("GOAMD64=v1 (no fused multiply-add); libm results are recomputed by the harness with the expressions of the source and checked by the model bit for bit")
	cs := &c18Cases{r: r}
	defer cs.close()
	if err := c18RegistryRun(r, cs); err != nil {
		// the translator obligation of the check reports the unparsable source; the oracles below still look
		// for a concrete failing input on the running code
		r.Note("registry source not parsable by the harness (" + err.Error() + "): source-vs-factory cases skipped")
	}

	// ---- scalar activations ----
	boundCoq := c18Boundary(r.N(37, 7)) // subset of the powers of two for the Coq cases
	boundAll := c18Boundary(1)          // all of them for the Go-side oracle
	outOfDomain := []float64{math.NaN(), math.Inf(1), math.Inf(-1), math.MaxFloat64, -math.MaxFloat64, 1e301, -1e301}
	nRandCoqFree, nRandCoqLibm := r.N(260, 20000), r.N(120, 4000)
	nRandOracle, nRefOracle := r.N(6000, 200000), r.N(1200, 30000)
	nRuns, runLen := r.N(60, 1500), r.N(200, 2000)
	for i := range c18Specs {
		sp := &c18Specs[i]
		if _, err := c18Activate(sp.Code, 0.5); err != nil {
			continue // not registered: reported by the registry part
		}
		// correspondence cases
		for _, x := range boundCoq {
			cs.scalar(sp.Code, x)
		}
		for _, x := range outOfDomain {
			cs.scalar(sp.Code, x)
		}
		nr := nRandCoqLibm
		if sp.LibmFree {
			nr = nRandCoqFree
		}
		for k := 0; k < nr; k++ {
			x := c18RandomInput(r)
			cs.scalar(sp.Code, x)
			c18CheckPoint(r, sp, x, true)
			r.Count(fmt.Sprintf("s %d %x", sp.Code, math.Float64bits(x)), x != 0)
		}
		// Go-side oracle: points
		for _, x := range boundAll {
			c18CheckPoint(r, sp, x, true)
			r.Count(fmt.Sprintf("s %d %x", sp.Code, math.Float64bits(x)), x != 0)
		}
		grid := append([]float64{}, boundAll...)
		for k := 0; k < nRandOracle; k++ {
			x := c18RandomInput(r)
			grid = append(grid, x)
			c18CheckPoint(r, sp, x, k < nRefOracle)
			r.Count(fmt.Sprintf("s %d %x", sp.Code, math.Float64bits(x)), x != 0)
			switch {
			case x == 0:
				r.Hist("scalar |x|", "0")
			case math.Abs(x) < 1e-300:
				r.Hist("scalar |x|", "<1e-300")
			case math.Abs(x) < 1e-3:
				r.Hist("scalar |x|", "<1e-3")
			case math.Abs(x) < 1:
				r.Hist("scalar |x|", "<1")
			case math.Abs(x) < 10:
				r.Hist("scalar |x|", "<10")
			case math.Abs(x) < 1e3:
				r.Hist("scalar |x|", "<1e3")
			default:
				r.Hist("scalar |x|", ">=1e3")
			}
		}
		if sp.Mono {
			// the recorded witness of the known finding first (only the inverse-abs sigmoid drops there)
			c18CheckPair(r, sp, 0x1p53, 0x1p53+2)
			if sp.Code == 2 {
				// recorded witness of the math.Exp finding (go1.23.5/amd64): exp(-0.5x) rises by one ulp as x grows
				c18CheckPair(r, sp, 0x1.1171531644f8ep-01, 0x1.1171531644f8fp-01)
			}
			// monotone on the sorted grid ...
			sort.Float64s(grid)
			for k := 0; k+1 < len(grid); k++ {
				c18CheckPair(r, sp, grid[k], grid[k+1])
			}
			// ... and on runs of consecutive doubles around random centres and around the breakpoints
			for k := 0; k < nRuns; k++ {
				x := c18RandomInput(r)
				if k < 10 {
					x = []float64{-4, -1, 0, 1, 4, 0x1p53, -0x1p53, 0.5, 144.1, -144.1}[k]
					for j := 0; j < runLen/2; j++ {
						x = math.Nextafter(x, math.Inf(-1))
					}
				}
				for j := 0; j < runLen; j++ {
					y := math.Nextafter(x, math.Inf(1))
					if math.Abs(y) > 1e300 {
						break
					}
					c18CheckPair(r, sp, x, y)
					x = y
				}
				r.Hist("monotone runs", sp.Const)
			}
		}
		r.Sample(map[string]interface{}{"type": sp.Const, "x": 0.75, "value": func() float64 { v, _ := c18Activate(sp.Code, 0.75); return v }()})
	}

	c18LibmHypotheses(r)

	// ---- module activations ----
	fixed := [][]float64{{-1e19}, {-1e300, -1e299}, {1e300}, {math.Copysign(0, -1), 0}, {0, math.Copysign(0, -1)}, {math.Copysign(0, -1)},
		{1e300, 1e300}, {1e-300, 1e-300}, {-3, 7, 7, -3}, {math.MaxFloat64 / 2}, {-9.3e18, -9.2e18}, {5}, {-5},
		{1e300, -1e300, 1e-300}, {2, 0.5, 4, 0.25}}
	for code := 21; code <= 23; code++ {
		if _, err := neatmath.NodeActivators.ActivateModuleByType([]float64{1}, nil, neatmath.NodeActivationType(code)); err != nil {
			continue
		}
		for _, xs := range fixed {
			cs.module(code, xs)
			c18CheckModule(r, code, xs)
			r.Count(fmt.Sprint("m ", code, c18HexList(xs)), true)
		}
		for k := 0; k < r.N(400, 20000); k++ {
			xs := c18RandomVector(r)
			if k < r.N(150, 5000) {
				cs.module(code, xs)
			}
			c18CheckModule(r, code, xs)
			r.Count(fmt.Sprint("m ", code, c18HexList(xs)), len(xs) > 1)
			r.Hist("module length", fmt.Sprint(len(xs)))
		}
		// NaN / infinities: outside the property's domain, correspondence only
		for _, xs := range [][]float64{{math.NaN(), 1}, {1, math.NaN()}, {math.Inf(1), math.NaN()}, {math.Inf(-1), math.NaN()}, {math.Inf(1)}, {math.Inf(-1)}, {math.Inf(-1), 3}, {math.Inf(1), 3}} {
			cs.module(code, xs)
		}
	}
	r.Sample(map[string]interface{}{"module": "MaxModuleActivation", "inputs": []float64{-1e19, -2e19}, "value": func() float64 {
		o, _ := neatmath.NodeActivators.ActivateModuleByType([]float64{-1e19, -2e19}, nil, neatmath.MaxModuleActivation)
		if len(o) == 1 {
			return o[0]
		}
		return math.NaN()
	}()})
	c18NetworkModules(r)
	c18FactoryIndependence(r)
	return nil
}

// c18NetworkModules: the module activations as a network applies them (network.ActivateModule): the value that
// reaches the module's output node is the product / maximum / minimum of the ACTIVATIONS of the module's input
// nodes - whatever weights the module's links carry (they are wiring, not synapses) - and it reaches every
// node the module feeds.
func c18NetworkModules(r *Run) {
	weights := []float64{1, 2, 5, -1, 0, 0.5, -3.25}
	for k := 0; k < r.N(120, 3000); k++ {
		code := 21 + k%3
		xs := c18RandomVector(r)
		if len(xs) == 0 || len(xs) > 6 {
			continue
		}
		cn := network.NewNNode(100, network.HiddenNeuron)
		cn.ActivationType = neatmath.NodeActivationType(code)
		ws := make([]float64, len(xs))
		for i, x := range xs {
			src := network.NewNNode(i+1, network.InputNeuron)
			src.SensorLoad(x)
			ws[i] = weights[r.Rng.Intn(len(weights))]
			cn.Incoming = append(cn.Incoming, network.NewLink(ws[i], src, cn, false))
		}
		out := network.NewNNode(200, network.OutputNeuron)
		wo := weights[r.Rng.Intn(len(weights))]
		cn.Outgoing = append(cn.Outgoing, network.NewLink(wo, cn, out, false))
		in := map[string]interface{}{"kind": "network-module", "code": code, "inputs": c18HexList(xs), "link_weights": ws, "out_link_weight": wo}
		var err error
		func() {
			defer func() {
				if p := recover(); p != nil {
					err = fmt.Errorf("panic: %v", p)
				}
			}()
			err = network.ActivateModule(cn, neatmath.NodeActivators)
		}()
		if err != nil {
			r.Fail(Failure{Key: fmt.Sprintf("network-module-error code=%d", code), What: "network.ActivateModule failed on a well-formed module: " + err.Error(), Input: in})
			continue
		}
		direct, derr := neatmath.NodeActivators.ActivateModuleByType(xs, nil, neatmath.NodeActivationType(code))
		if derr != nil || len(direct) != 1 {
			continue
		}
		if math.Float64bits(out.Activation) != math.Float64bits(direct[0]) || out.ActivationsCount != 1 {
			r.Fail(Failure{Key: fmt.Sprintf("network-module-value code=%d", code), What: "the value a module delivers to its output node is not the module function of its input nodes' activations",
				Input: in, Observed: c18Hex(out.Activation), Required: c18Hex(direct[0])})
		}
		r.Count(fmt.Sprint("nm ", code, c18HexList(xs), ws), len(xs) > 1)
	}
	r.Hist("network_modules", "checked")
}

// c18FactoryIndependence: registrations made on a factory of the caller's own must not reach the package default
// (the one the solvers and the readers/writers use) nor a factory created afterwards: their names, values and
// errors for all 256 type codes are the same before and after.  Runs last: if the registry is shared, the default
// is polluted from here on.
func c18FactoryIndependence(r *Run) {
	type row struct {
		Name         string
		NErr, SE, ME bool
		V            uint64
		M            string
	}
	capture := func(f *neatmath.NodeActivatorsFactory) []row {
		out := make([]row, 256)
		for code := 0; code < 256; code++ {
			t := neatmath.NodeActivationType(code)
			name, nerr := f.ActivationNameFromType(t)
			v, serr := f.ActivateByType(0.5, nil, t)
			mv, merr := f.ActivateModuleByType([]float64{1, 5, 3}, nil, t)
			out[code] = row{name, nerr != nil, serr != nil, merr != nil, math.Float64bits(v), fmt.Sprint(c18HexList(mv))}
		}
		return out
	}
	before := capture(neatmath.NodeActivators)
	own := neatmath.NewNodeActivatorsFactory()
	own.Register(neatmath.TanhActivation, func(x float64, _ []float64) float64 { return 42 * x }, "MyScaledTanh")
	own.Register(neatmath.NodeActivationType(100), func(x float64, _ []float64) float64 { return -x }, "Custom100")
	own.RegisterModule(neatmath.MaxModuleActivation, func(_ []float64, _ []float64) []float64 { return []float64{-7} }, "MyMax")
	in := map[string]interface{}{"kind": "factory-independence", "registered_on_own_factory": []string{"TanhActivation -> 42*x as MyScaledTanh", "type 100 as Custom100", "MaxModuleActivation -> [-7] as MyMax"}}
	for who, f := range map[string]*neatmath.NodeActivatorsFactory{"the package default NodeActivators": neatmath.NodeActivators, "a factory created afterwards": neatmath.NewNodeActivatorsFactory()} {
		after := capture(f)
		for code := range after {
			if after[code] != before[code] {
				r.Fail(Failure{Key: fmt.Sprintf("factory-shares-registry code=%d", code),
					What:  "registering functions on a caller's own factory changed " + who,
					Input: in, Observed: after[code], Required: before[code]})
				return
			}
		}
	}
	if _, err := own.ActivationTypeFromName("Custom100"); err != nil {
		r.Fail(Failure{Key: "factory-own-registration-lost", What: "a registration on the caller's own factory is not found there", Input: in})
	}
	r.Hist("factory_independence", "checked")
}

// ---------------------------------------------------------------------------------------------
// replay
// ---------------------------------------------------------------------------------------------

func replayC18(r *Run, input []byte) error {
	var k struct {
		Kind string `json:"kind"`
	}
	if err := json.Unmarshal(input, &k); err != nil {
		return err
	}
	switch k.Kind {
	case "scalar", "mono":
		var in c18ScalarInput
		if err := json.Unmarshal(input, &in); err != nil {
			return err
		}
		sp := c18SpecOf(in.Code)
		if sp == nil {
			return fmt.Errorf("no scalar activation with code %d", in.Code)
		}
		if k.Kind == "mono" {
			c18CheckPair(r, sp, c18ParseHex(in.X), c18ParseHex(in.Y))
		} else {
			c18CheckPoint(r, sp, c18ParseHex(in.X), true)
		}
	case "module":
		var in c18ModuleInput
		if err := json.Unmarshal(input, &in); err != nil {
			return err
		}
		xs := make([]float64, len(in.Inputs))
		for i, s := range in.Inputs {
			xs[i] = c18ParseHex(s)
		}
		c18CheckModule(r, in.Code, xs)
	case "registry", "neuron":
		// the registry oracle is exhaustive and input-free: re-run all of it
		cs := &c18Cases{r: r}
		err := c18RegistryRun(r, cs)
		cs.close()
		return err
	default:
		return fmt.Errorf("unknown input kind %q", k.Kind)
	}
	return nil
}
