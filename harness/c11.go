package main

import (
	"context"
	"encoding/json"
	"fmt"
	"math"
	"math/rand"
	"os"
	"sort"
	"strconv"
	"strings"

	"github.com/yaricom/goNEAT/v4/neat"
	"github.com/yaricom/goNEAT/v4/neat/genetics"
	neatmath "github.com/yaricom/goNEAT/v4/neat/math"
	"github.com/yaricom/goNEAT/v4/neat/network"
)

// C11: a phenotype expresses exactly the enabled part of its genome; the gonum graph view and the
// counts report exactly that structure for ALL ordered pairs of ids (present or absent).
//
// Inputs are genome VALUES (c11Genome); the real genome is built from the value, expressed with the real
// Genome.Genesis and queried through the exported gonum adapters exactly as a gonum client would.

func init() {
	runners["C11"] = runC11
	replayers["C11"] = replayC11
}

// ---------- genome values ----------

// c11F is a float64 that survives JSON (NaN, infinities, -0) as an exact hex-float string
type c11F float64

func (f c11F) MarshalJSON() ([]byte, error) {
	return []byte(strconv.Quote(strconv.FormatFloat(float64(f), 'x', -1, 64))), nil
}
func (f *c11F) UnmarshalJSON(b []byte) error {
	s, err := strconv.Unquote(string(b))
	if err != nil {
		s = string(b)
	}
	x, err := strconv.ParseFloat(s, 64)
	if err != nil {
		return err
	}
	*f = c11F(x)
	return nil
}

type c11Trait struct {
	Id     int       `json:"id"`
	Params []float64 `json:"params"`
}
type c11Node struct {
	Id    int `json:"id"`
	Type  int `json:"type"`
	Act   int `json:"act"`
	Trait int `json:"trait"` // 0 = none
}
type c11Gene struct {
	In      int   `json:"in"`
	Out     int   `json:"out"`
	Rec     bool  `json:"rec"`
	W       c11F  `json:"w"`
	Trait   int   `json:"trait"`
	Innov   int64 `json:"innov"`
	Mut     c11F  `json:"mut"`
	Enabled bool  `json:"enabled"`
}
type c11IO struct {
	Id int  `json:"id"`
	W  c11F `json:"w"`
}
type c11Module struct {
	Node    c11Node `json:"node"`
	Innov   int64   `json:"innov"`
	Mut     c11F    `json:"mut"`
	Enabled bool    `json:"enabled"`
	Ins     []c11IO `json:"ins"`
	Outs    []c11IO `json:"outs"`
}
type c11Genome struct {
	Id      int         `json:"id"`
	Traits  []c11Trait  `json:"traits"`
	Nodes   []c11Node   `json:"nodes"`
	Genes   []c11Gene   `json:"genes"`
	Modules []c11Module `json:"modules"`
}

type c11Input struct {
	Kind   string    `json:"kind"` // "graph" (genesis + graph view) | "cache" (organism phenotype cache)
	Origin string    `json:"origin"`
	G      c11Genome `json:"genome"`
	NetId  int       `json:"net_id"`
	// cache cases: mutator applied to the genome before the organism is created
	Mut   string        `json:"mutator,omitempty"`
	Seed  int64         `json:"seed,omitempty"`
	Opts  *neat.Options `json:"opts,omitempty"`
	Innov []innovJSON   `json:"innovations,omitempty"`
	NextI int64         `json:"next_innov,omitempty"`
	NextN int           `json:"next_node,omitempty"`
}

func c11TraitId(t *neat.Trait) int {
	if t == nil {
		return 0
	}
	return t.Id
}

// c11Value projects a real genome to its value
func c11Value(g *genetics.Genome) c11Genome {
	v := c11Genome{Id: g.Id}
	for _, t := range g.Traits {
		v.Traits = append(v.Traits, c11Trait{t.Id, append([]float64(nil), t.Params...)})
	}
	nd := func(n *network.NNode) c11Node {
		return c11Node{n.Id, int(n.NeuronType), int(n.ActivationType), c11TraitId(n.Trait)}
	}
	for _, n := range g.Nodes {
		v.Nodes = append(v.Nodes, nd(n))
	}
	for _, x := range g.Genes {
		v.Genes = append(v.Genes, c11Gene{x.Link.InNode.Id, x.Link.OutNode.Id, x.Link.IsRecurrent, c11F(x.Link.ConnectionWeight),
			c11TraitId(x.Link.Trait), x.InnovationNum, c11F(x.MutationNum), x.IsEnabled})
	}
	for _, m := range g.ControlGenes {
		mv := c11Module{Node: nd(m.ControlNode), Innov: m.InnovationNum, Mut: c11F(m.MutationNum), Enabled: m.IsEnabled}
		for _, l := range m.ControlNode.Incoming {
			mv.Ins = append(mv.Ins, c11IO{l.InNode.Id, c11F(l.ConnectionWeight)})
		}
		for _, l := range m.ControlNode.Outgoing {
			mv.Outs = append(mv.Outs, c11IO{l.OutNode.Id, c11F(l.ConnectionWeight)})
		}
		v.Modules = append(v.Modules, mv)
	}
	return v
}

// c11Build constructs the real genome of a value (endpoints are the genome's own node objects)
func c11Build(v c11Genome) (*genetics.Genome, error) {
	traits := make([]*neat.Trait, 0)
	tById := map[int]*neat.Trait{}
	for _, t := range v.Traits {
		tr := &neat.Trait{Id: t.Id, Params: append([]float64(nil), t.Params...)}
		traits = append(traits, tr)
		tById[t.Id] = tr
	}
	mk := func(n c11Node) *network.NNode {
		x := network.NewNNode(n.Id, network.NodeNeuronType(n.Type))
		x.ActivationType = neatmath.NodeActivationType(n.Act)
		x.Trait = tById[n.Trait]
		return x
	}
	nodes := make([]*network.NNode, 0)
	nById := map[int]*network.NNode{}
	for _, n := range v.Nodes {
		x := mk(n)
		nodes = append(nodes, x)
		if _, dup := nById[n.Id]; !dup {
			nById[n.Id] = x
		}
	}
	genes := make([]*genetics.Gene, 0)
	for _, x := range v.Genes {
		in, out := nById[x.In], nById[x.Out]
		if in == nil || out == nil {
			return nil, fmt.Errorf("gene %d: endpoint is not a node of the genome", x.Innov)
		}
		genes = append(genes, genetics.NewConnectionGene(network.NewLinkWithTrait(tById[x.Trait], float64(x.W), in, out, x.Rec), x.Innov, float64(x.Mut), x.Enabled))
	}
	if len(v.Modules) == 0 {
		return genetics.NewGenome(v.Id, traits, nodes, genes), nil
	}
	mods := make([]*genetics.MIMOControlGene, 0)
	for _, m := range v.Modules {
		cn := mk(m.Node)
		for _, io := range m.Ins {
			if nById[io.Id] == nil {
				return nil, fmt.Errorf("module %d: input %d is not a node of the genome", m.Node.Id, io.Id)
			}
			cn.AddIncoming(nById[io.Id], float64(io.W))
		}
		for _, io := range m.Outs {
			if nById[io.Id] == nil {
				return nil, fmt.Errorf("module %d: output %d is not a node of the genome", m.Node.Id, io.Id)
			}
			cn.AddOutgoing(nById[io.Id], float64(io.W))
		}
		mods = append(mods, genetics.NewMIMOGene(cn, m.Innov, float64(m.Mut), m.Enabled))
	}
	return genetics.NewModularGenome(v.Id, traits, nodes, genes, mods), nil
}

// ---------- the abstract graph G g = (V, E) recomputed from the genome value (Go-side oracle) ----------

type c11Edge struct{ u, v int }

type c11Spec struct {
	V       []int // node ids then ids of enabled modules, in order
	inV     map[int]bool
	E       map[c11Edge]bool
	firstW  map[c11Edge]float64 // weight of the first link from u to v (gene order; module list order)
	succ    map[int][]int       // as coded order: genes then modules
	pred    map[int][]int
	enabled []c11Gene
	nLinks  int
}

func c11SpecOf(v c11Genome) *c11Spec {
	s := &c11Spec{inV: map[int]bool{}, E: map[c11Edge]bool{}, firstW: map[c11Edge]float64{}, succ: map[int][]int{}, pred: map[int][]int{}}
	for _, n := range v.Nodes {
		s.V = append(s.V, n.Id)
		s.inV[n.Id] = true
	}
	add := func(u, w int, wt float64) {
		e := c11Edge{u, w}
		if !s.E[e] {
			s.E[e] = true
			s.firstW[e] = wt
		}
		s.nLinks++
	}
	for _, x := range v.Genes {
		if x.Enabled {
			s.enabled = append(s.enabled, x)
			add(x.In, x.Out, float64(x.W))
			s.succ[x.In] = append(s.succ[x.In], x.Out)
			s.pred[x.Out] = append(s.pred[x.Out], x.In)
		}
	}
	for _, m := range v.Modules {
		if !m.Enabled {
			continue
		}
		c := m.Node.Id
		s.V = append(s.V, c)
		s.inV[c] = true
		seenIn, seenOut := map[int]bool{}, map[int]bool{}
		for _, io := range m.Ins {
			add(io.Id, c, float64(io.W))
			s.pred[c] = append(s.pred[c], io.Id)
			if !seenIn[io.Id] {
				seenIn[io.Id] = true
				s.succ[io.Id] = append(s.succ[io.Id], c)
			}
		}
		for _, io := range m.Outs {
			add(c, io.Id, float64(io.W))
			s.succ[c] = append(s.succ[c], io.Id)
			if !seenOut[io.Id] {
				seenOut[io.Id] = true
				s.pred[io.Id] = append(s.pred[io.Id], c)
			}
		}
	}
	return s
}

func c11Set(xs []int) string {
	m := map[int]bool{}
	for _, x := range xs {
		m[x] = true
	}
	ys := make([]int, 0, len(m))
	for x := range m {
		ys = append(ys, x)
	}
	sort.Ints(ys)
	return fmt.Sprint(ys)
}

// well-formedness hypotheses of the theorems, on the value
func c11WF(v c11Genome) bool {
	ids := map[int]bool{}
	for _, n := range v.Nodes {
		if ids[n.Id] {
			return false
		}
		ids[n.Id] = true
	}
	for _, x := range v.Genes {
		if x.Enabled && (!ids[x.In] || !ids[x.Out]) {
			return false
		}
	}
	all := map[int]bool{}
	for k := range ids {
		all[k] = true
	}
	for _, m := range v.Modules {
		if !m.Enabled {
			continue
		}
		if all[m.Node.Id] {
			return false
		}
		all[m.Node.Id] = true
		for _, io := range append(append([]c11IO(nil), m.Ins...), m.Outs...) {
			if !ids[io.Id] {
				return false
			}
		}
	}
	return true
}

// ---------- observing the real network ----------

func c11CoqLink(l *network.Link) string {
	return fmt.Sprintf("(PL %s %s %s %s %s)", ZI(l.InNode.Id), ZI(l.OutNode.Id), F(l.ConnectionWeight), B(l.IsRecurrent), traitRef(l.Trait))
}

func c11CoqPNode(n *network.NNode) string {
	var in, out []string
	for _, l := range n.Incoming {
		in = append(in, c11CoqLink(l))
	}
	for _, l := range n.Outgoing {
		out = append(out, c11CoqLink(l))
	}
	return fmt.Sprintf("(PD %s %d %d %s %s %s)", ZI(n.Id), int(n.NeuronType), int(n.ActivationType), traitRef(n.Trait), List(in), List(out))
}

func c11NodeIds(ns []*network.NNode) []int {
	ids := make([]int, len(ns))
	for i, n := range ns {
		ids[i] = n.Id
	}
	return ids
}

func c11CoqNet(n *network.Network) string {
	render := func(ns []*network.NNode) string {
		it := make([]string, len(ns))
		for i, x := range ns {
			it[i] = c11CoqPNode(x)
		}
		return List(it)
	}
	return fmt.Sprintf("(PN %s %s %s %s %s %s)", ZI(n.Id), IList(c11NodeIds(network.VInputs(n))), IList(c11NodeIds(n.Outputs)),
		render(n.BaseNodes()), render(n.ControlNodes()), render(n.AllNodes()))
}

// one ordered pair as a gonum client sees it
type c11PairObs struct {
	U, V     int
	Hft, Hb  bool
	EdgeNil  bool
	EF, ET   int64
	WEdgeNil bool
	WF, WT   int64
	WEdgeW   float64
	W        float64
	Ok       bool
}

func (p c11PairObs) absent() bool {
	return !p.Hft && !p.Hb && p.EdgeNil && p.WEdgeNil && math.Float64bits(p.W) == 0 && !p.Ok
}

func (p c11PairObs) coq() string {
	e, we := "None", "None"
	if !p.EdgeNil {
		e = fmt.Sprintf("(Some (%s, %s))", Z(p.EF), Z(p.ET))
	}
	if !p.WEdgeNil {
		we = fmt.Sprintf("(Some (%s, %s, %s))", Z(p.WF), Z(p.WT), F(p.WEdgeW))
	}
	return fmt.Sprintf("(PO %s %s %s %s %s %s %s %s)", ZI(p.U), ZI(p.V), B(p.Hft), B(p.Hb), e, we, F(p.W), B(p.Ok))
}

// c11Safe evaluates f, reporting a panic instead of propagating it
func c11Safe(f func() int64) (v int64, panicked bool) {
	defer func() {
		if p := recover(); p != nil {
			panicked = true
		}
	}()
	return f(), false
}

type c11TypedNil struct{ what string }

func c11ObservePair(n *network.Network, u, v int) c11PairObs {
	p := c11PairObs{U: u, V: v}
	uid, vid := int64(u), int64(v)
	p.Hft = n.HasEdgeFromTo(uid, vid)
	p.Hb = n.HasEdgeBetween(uid, vid)
	e := n.Edge(uid, vid)
	p.EdgeNil = e == nil
	if !p.EdgeNil {
		var bad bool
		if p.EF, bad = c11Safe(func() int64 { return e.From().ID() }); bad {
			panic(c11TypedNil{fmt.Sprintf("Edge(%d,%d) != nil, but calling From() on it panics (typed nil pointer inside the interface)", u, v)})
		}
		p.ET = e.To().ID()
	}
	we := n.WeightedEdge(uid, vid)
	p.WEdgeNil = we == nil
	if !p.WEdgeNil {
		var bad bool
		if p.WF, bad = c11Safe(func() int64 { return we.From().ID() }); bad {
			panic(c11TypedNil{fmt.Sprintf("WeightedEdge(%d,%d) != nil, but calling From() on it panics (typed nil pointer inside the interface)", u, v)})
		}
		p.WT, p.WEdgeW = we.To().ID(), we.Weight()
	}
	p.W, p.Ok = n.Weight(uid, vid)
	return p
}

type c11View struct {
	Ids    []int
	Node   []*int64 // nil = nil interface
	Nodes  []int64
	From   [][]int64
	To     [][]int64
	Pairs  []c11PairObs // all pairs, row-major
	NC, LC int
	CX     int
}

func c11Observe(n *network.Network, ids []int) (view c11View, err error) {
	defer func() {
		if p := recover(); p != nil {
			if tn, ok := p.(c11TypedNil); ok {
				err = fmt.Errorf("%s", tn.what)
			} else {
				err = fmt.Errorf("panic in graph view: %v", p)
			}
		}
	}()
	view.Ids = ids
	for _, u := range ids {
		nd := n.Node(int64(u))
		if nd == nil {
			view.Node = append(view.Node, nil)
		} else {
			id, bad := c11Safe(func() int64 { return nd.ID() })
			if bad {
				return view, fmt.Errorf("Node(%d) != nil, but calling ID() on it panics (typed nil pointer inside the interface)", u)
			}
			view.Node = append(view.Node, &id)
		}
		var fr, to []int64
		it := n.From(int64(u))
		if it == nil {
			return view, fmt.Errorf("From(%d) returned nil", u)
		}
		for it.Next() {
			fr = append(fr, it.Node().ID())
		}
		it = n.To(int64(u))
		if it == nil {
			return view, fmt.Errorf("To(%d) returned nil", u)
		}
		for it.Next() {
			to = append(to, it.Node().ID())
		}
		view.From = append(view.From, fr)
		view.To = append(view.To, to)
	}
	all := n.Nodes()
	if all == nil {
		return view, fmt.Errorf("Nodes() returned nil")
	}
	for all.Next() {
		view.Nodes = append(view.Nodes, all.Node().ID())
	}
	for _, u := range ids {
		for _, v := range ids {
			view.Pairs = append(view.Pairs, c11ObservePair(n, u, v))
		}
	}
	view.NC, view.LC, view.CX = n.NodeCount(), n.LinkCount(), n.Complexity()
	return view, nil
}

func c11Ids(s *c11Spec) []int {
	ids := append([]int(nil), s.V...)
	a := 0
	for s.inV[a] {
		a++
	}
	mx := 0
	for _, x := range s.V {
		if x > mx {
			mx = x
		}
	}
	return append(ids, a, mx+7)
}

// ---------- Go-side oracle of the statement ----------

func c11I64(xs []int64) []int {
	ys := make([]int, len(xs))
	for i, x := range xs {
		ys[i] = int(x)
	}
	return ys
}

// c11CheckGenesis compares the real network with the statement: one node per genome node, inputs and outputs in
// genome order, per node exactly the enabled genes ending / starting there in gene order, control nodes per
// enabled module. Returns "" or the first discrepancy.
func c11CheckGenesis(v c11Genome, n *network.Network) string {
	base := n.BaseNodes()
	if len(base) != len(v.Nodes) {
		return fmt.Sprintf("network has %d nodes, genome %d", len(base), len(v.Nodes))
	}
	byId := map[int]*network.NNode{}
	var ins, outs []int
	for i, gn := range v.Nodes {
		x := base[i]
		if x.Id != gn.Id || int(x.NeuronType) != gn.Type || int(x.ActivationType) != gn.Act || c11TraitId(x.Trait) != gn.Trait {
			return fmt.Sprintf("node %d of the network differs from genome node %d in id, role, activation or trait", x.Id, gn.Id)
		}
		byId[gn.Id] = x
		if gn.Type == int(network.InputNeuron) || gn.Type == int(network.BiasNeuron) {
			ins = append(ins, gn.Id)
		} else if gn.Type == int(network.OutputNeuron) {
			outs = append(outs, gn.Id)
		}
	}
	if fmt.Sprint(c11NodeIds(network.VInputs(n))) != fmt.Sprint(ins) {
		return fmt.Sprintf("inputs %v, genome sensors %v", c11NodeIds(network.VInputs(n)), ins)
	}
	if fmt.Sprint(c11NodeIds(n.Outputs)) != fmt.Sprint(outs) {
		return fmt.Sprintf("outputs %v, genome outputs %v", c11NodeIds(n.Outputs), outs)
	}
	for i, x := range network.VInputs(n) {
		if x != byId[ins[i]] {
			return "an input is not the network's own node object"
		}
	}
	for i, x := range n.Outputs {
		if x != byId[outs[i]] {
			return "an output is not the network's own node object"
		}
	}
	linkStr := func(in, out int, w float64, rec bool, tr int) string {
		return fmt.Sprint(in, ">", out, " ", math.Float64bits(w), " ", rec, " ", tr)
	}
	for _, gn := range v.Nodes {
		var wantIn, wantOut []string
		for _, x := range v.Genes {
			if !x.Enabled {
				continue
			}
			if x.Out == gn.Id {
				wantIn = append(wantIn, linkStr(x.In, x.Out, float64(x.W), x.Rec, x.Trait))
			}
			if x.In == gn.Id {
				wantOut = append(wantOut, linkStr(x.In, x.Out, float64(x.W), x.Rec, x.Trait))
			}
		}
		var gotIn, gotOut []string
		for _, l := range byId[gn.Id].Incoming {
			if l.InNode != byId[l.InNode.Id] || l.OutNode != byId[gn.Id] {
				return fmt.Sprintf("a link into node %d does not join the network's own node objects", gn.Id)
			}
			gotIn = append(gotIn, linkStr(l.InNode.Id, l.OutNode.Id, l.ConnectionWeight, l.IsRecurrent, c11TraitId(l.Trait)))
		}
		for _, l := range byId[gn.Id].Outgoing {
			if l.OutNode != byId[l.OutNode.Id] || l.InNode != byId[gn.Id] {
				return fmt.Sprintf("a link out of node %d does not join the network's own node objects", gn.Id)
			}
			gotOut = append(gotOut, linkStr(l.InNode.Id, l.OutNode.Id, l.ConnectionWeight, l.IsRecurrent, c11TraitId(l.Trait)))
		}
		if strings.Join(gotIn, ";") != strings.Join(wantIn, ";") {
			return fmt.Sprintf("incoming links of node %d are %v, enabled genes ending there %v", gn.Id, gotIn, wantIn)
		}
		if strings.Join(gotOut, ";") != strings.Join(wantOut, ";") {
			return fmt.Sprintf("outgoing links of node %d are %v, enabled genes starting there %v", gn.Id, gotOut, wantOut)
		}
	}
	// the same link object sits in the in-list of its target and the out-list of its source
	for _, x := range base {
		for _, l := range x.Incoming {
			found := false
			for _, l2 := range l.InNode.Outgoing {
				if l2 == l {
					found = true
				}
			}
			if !found {
				return fmt.Sprintf("link %d>%d is in an in-list but not in the out-list of its source", l.InNode.Id, l.OutNode.Id)
			}
		}
	}
	// control nodes
	var mods []c11Module
	for _, m := range v.Modules {
		if m.Enabled {
			mods = append(mods, m)
		}
	}
	ctl := n.ControlNodes()
	if len(ctl) != len(mods) {
		return fmt.Sprintf("%d control nodes, %d enabled modules", len(ctl), len(mods))
	}
	for i, m := range mods {
		c := ctl[i]
		if c.Id != m.Node.Id || int(c.NeuronType) != m.Node.Type || int(c.ActivationType) != m.Node.Act {
			return fmt.Sprintf("control node %d differs from module %d", c.Id, m.Node.Id)
		}
		var wantIn, wantOut, gotIn, gotOut []string
		for _, io := range m.Ins {
			wantIn = append(wantIn, linkStr(io.Id, c.Id, float64(io.W), false, 0))
		}
		for _, io := range m.Outs {
			wantOut = append(wantOut, linkStr(c.Id, io.Id, float64(io.W), false, 0))
		}
		for _, l := range c.Incoming {
			if l.InNode != byId[l.InNode.Id] || l.OutNode != c {
				return "a control input link does not join the network's own node objects"
			}
			gotIn = append(gotIn, linkStr(l.InNode.Id, l.OutNode.Id, l.ConnectionWeight, l.IsRecurrent, c11TraitId(l.Trait)))
		}
		for _, l := range c.Outgoing {
			if l.OutNode != byId[l.OutNode.Id] || l.InNode != c {
				return "a control output link does not join the network's own node objects"
			}
			gotOut = append(gotOut, linkStr(l.InNode.Id, l.OutNode.Id, l.ConnectionWeight, l.IsRecurrent, c11TraitId(l.Trait)))
		}
		if strings.Join(gotIn, ";") != strings.Join(wantIn, ";") || strings.Join(gotOut, ";") != strings.Join(wantOut, ";") {
			return fmt.Sprintf("control node %d is wired %v / %v, module lists %v / %v", c.Id, gotIn, gotOut, wantIn, wantOut)
		}
	}
	mimo := n.AllNodes()
	if len(mimo) != len(base)+len(ctl) {
		return "AllNodes is not base nodes + control nodes"
	}
	for i, x := range mimo {
		if (i < len(base) && x != base[i]) || (i >= len(base) && x != ctl[i-len(base)]) {
			return "AllNodes is not base nodes + control nodes"
		}
	}
	return ""
}

// c11CheckView checks every graph query against G g = (V, E); returns discrepancies as (key, text)
func c11CheckView(s *c11Spec, view c11View) [][2]string {
	var bad [][2]string
	add := func(k, t string) {
		if len(bad) < 5 {
			bad = append(bad, [2]string{k, t})
		}
	}
	for i, u := range view.Ids {
		nd := view.Node[i]
		if s.inV[u] && (nd == nil || int(*nd) != u) {
			add("node-missing", fmt.Sprintf("Node(%d) is nil or has another id although %d is a node", u, u))
		}
		if !s.inV[u] && nd != nil {
			add("node-not-nil", fmt.Sprintf("Node(%d) is not a nil interface although %d is not a node", u, u))
		}
		if c11Set(c11I64(view.From[i])) != c11Set(s.succ[u]) {
			add("from", fmt.Sprintf("From(%d) = %v, successors %v", u, view.From[i], s.succ[u]))
		} else if fmt.Sprint(c11I64(view.From[i])) != fmt.Sprint(append([]int{}, s.succ[u]...)) {
			add("from-order", fmt.Sprintf("From(%d) = %v, successors in link order (one entry per gene, one per module) %v", u, view.From[i], s.succ[u]))
		}
		if c11Set(c11I64(view.To[i])) != c11Set(s.pred[u]) {
			add("to", fmt.Sprintf("To(%d) = %v, predecessors %v", u, view.To[i], s.pred[u]))
		} else if fmt.Sprint(c11I64(view.To[i])) != fmt.Sprint(append([]int{}, s.pred[u]...)) {
			add("to-order", fmt.Sprintf("To(%d) = %v, predecessors in link order (one entry per gene, one per module) %v", u, view.To[i], s.pred[u]))
		}
	}
	if fmt.Sprint(c11I64(view.Nodes)) != fmt.Sprint(s.V) {
		add("nodes", fmt.Sprintf("Nodes() = %v, V = %v", view.Nodes, s.V))
	}
	for _, p := range view.Pairs {
		e := s.E[c11Edge{p.U, p.V}]
		er := s.E[c11Edge{p.V, p.U}]
		at := fmt.Sprintf("(%d,%d)", p.U, p.V)
		if p.Hft != e {
			add("hasedgefromto", fmt.Sprintf("HasEdgeFromTo%s = %v, edge in E: %v", at, p.Hft, e))
		}
		if p.Hb != (e || er) {
			add("hasedgebetween", fmt.Sprintf("HasEdgeBetween%s = %v, edge in either direction: %v", at, p.Hb, e || er))
		}
		if p.EdgeNil == e {
			add("edge-nil", fmt.Sprintf("Edge%s == nil is %v, edge in E: %v", at, p.EdgeNil, e))
		}
		if p.WEdgeNil == e {
			add("weightededge-nil", fmt.Sprintf("WeightedEdge%s == nil is %v, edge in E: %v", at, p.WEdgeNil, e))
		}
		if !p.EdgeNil && (int(p.EF) != p.U || int(p.ET) != p.V) {
			add("edge-endpoints", fmt.Sprintf("Edge%s joins %d -> %d", at, p.EF, p.ET))
		}
		if !p.WEdgeNil && (int(p.WF) != p.U || int(p.WT) != p.V) {
			add("weightededge-endpoints", fmt.Sprintf("WeightedEdge%s joins %d -> %d", at, p.WF, p.WT))
		}
		if e {
			w := s.firstW[c11Edge{p.U, p.V}]
			if !p.Ok || math.Float64bits(p.W) != math.Float64bits(w) {
				add("weight", fmt.Sprintf("Weight%s = (%v,%v), first link weighs %v", at, p.W, p.Ok, w))
			}
			if !p.WEdgeNil && math.Float64bits(p.WEdgeW) != math.Float64bits(w) {
				add("weightededge-weight", fmt.Sprintf("WeightedEdge%s.Weight() = %v, first link weighs %v", at, p.WEdgeW, w))
			}
		} else if p.Ok || math.Float64bits(p.W) != 0 {
			add("weight-absent", fmt.Sprintf("Weight%s = (%v,%v) for an absent edge", at, p.W, p.Ok))
		}
	}
	if view.NC != len(s.V) {
		add("nodecount", fmt.Sprintf("NodeCount = %d, |V| = %d", view.NC, len(s.V)))
	}
	if view.LC != s.nLinks {
		add("linkcount", fmt.Sprintf("LinkCount = %d, links = %d", view.LC, s.nLinks))
	}
	if view.CX != len(s.V)+s.nLinks {
		add("complexity", fmt.Sprintf("Complexity = %d, |V| + links = %d", view.CX, len(s.V)+s.nLinks))
	}
	return bad
}

// ---------- one graph case ----------

func c11ErrCode(err error) int {
	switch {
	case err == nil:
		return 0
	case strings.Contains(err.Error(), "without GENES"):
		return 1
	case strings.Contains(err.Error(), "without OUTPUTS"):
		return 2
	}
	return 9
}

func c11GraphCase(r *Run, cf *CaseFile, id int, in c11Input) {
	v := in.G
	fail := func(key, what string, obs interface{}) {
		r.Fail(Failure{Key: key + " origin=" + in.Origin, What: what, Input: in, Observed: obs})
	}
	defer func() {
		if p := recover(); p != nil {
			fail("panic", fmt.Sprintf("panic while expressing / inspecting the genome: %v", p), nil)
		}
	}()
	g, err := c11Build(v)
	if err != nil {
		r.Note("c11: could not build a generated genome: " + err.Error())
		return
	}
	gTerm := coqGenome(g)
	var net *network.Network
	func() {
		defer func() {
			if p := recover(); p != nil {
				err = fmt.Errorf("panic: %v", p)
			}
		}()
		net, err = g.Genesis(in.NetId)
	}()
	outputs := 0
	for _, n := range v.Nodes {
		if n.Type == int(network.OutputNeuron) {
			outputs++
		}
	}
	wantErr := len(v.Genes) == 0 || outputs == 0
	if (err != nil) != wantErr {
		fail("genesis-error", "Genesis must fail exactly when the genome has no genes or no output node",
			map[string]interface{}{"err": fmt.Sprint(err), "genes": len(v.Genes), "outputs": outputs})
	}
	r.Hist("genesis", []string{"ok", "no-genes", "no-outputs"}[minInt(c11ErrCode(err), 2)])
	if err != nil {
		if cf != nil {
			cf.Add(fmt.Sprintf("{| c11_id := %d; c11_g := %s; c11_netid := %s; c11_go_net := GoError %d; c11_ids := []; c11_node := []; c11_nodes := []; c11_from := []; c11_to := []; c11_pairs := []; c11_counts := (0, 0, 0) |}",
				id, gTerm, ZI(in.NetId), c11ErrCode(err)))
			r.SaveInput(id, in)
		}
		r.Count("err|"+gTerm, false)
		return
	}
	if net.Id != in.NetId {
		fail("genesis-netid", "the network does not carry the requested id", net.Id)
	}
	if g.Phenotype != net {
		fail("genesis-phenotype-field", "Genesis did not attach the network to the genome", nil)
	}
	if d := c11CheckGenesis(v, net); d != "" {
		fail("genesis-structure", "the expressed network is not the enabled part of the genome: "+d, d)
	}
	spec := c11SpecOf(v)
	ids := c11Ids(spec)
	view, verr := c11Observe(net, ids)
	if verr != nil {
		fail("graph-view-broken", "an absent node / edge is not reported as nil, or a query panics: "+verr.Error(), verr.Error())
		return
	}
	for _, b := range c11CheckView(spec, view) {
		fail("graph-"+b[0], "graph view disagrees with the genome's graph: "+b[1], b[1])
	}
	// statistics
	nDis, nRec, nSelf, par := 0, 0, 0, 0
	pairSeen := map[c11Edge]int{}
	for _, x := range v.Genes {
		if !x.Enabled {
			nDis++
			continue
		}
		if x.Rec {
			nRec++
		}
		if x.In == x.Out {
			nSelf++
		}
		pairSeen[c11Edge{x.In, x.Out}]++
	}
	for _, c := range pairSeen {
		if c > 1 {
			par++
		}
	}
	nMod, shared := 0, 0
	for _, m := range v.Modules {
		if m.Enabled {
			nMod++
			for _, a := range m.Ins {
				for _, b := range m.Outs {
					if a.Id == b.Id {
						shared++
					}
				}
			}
		}
	}
	r.Hist("nodes", bucket(len(v.Nodes)))
	r.Hist("enabled_modules", fmt.Sprint(nMod))
	r.Hist("modules", fmt.Sprint(len(v.Modules)))
	r.Hist("disabled_genes", bucket(nDis))
	r.Hist("recurrent_enabled_genes", bucket(nRec))
	r.Hist("self_loops", bucket(nSelf))
	r.Hist("parallel_pairs", fmt.Sprint(par))
	r.Hist("module_shares_in_and_out", fmt.Sprint(shared > 0))
	r.Hist("origin", in.Origin)
	r.Count(gTerm, nDis > 0 || nRec > 0 || nSelf > 0 || nMod > 0)
	if cf != nil {
		var nodeT, fromT, toT, pairT []string
		for i := range ids {
			if view.Node[i] == nil {
				nodeT = append(nodeT, "None")
			} else {
				nodeT = append(nodeT, "(Some "+Z(*view.Node[i])+")")
			}
			fromT = append(fromT, ZList(view.From[i]))
			toT = append(toT, ZList(view.To[i]))
		}
		for _, p := range view.Pairs {
			if !p.absent() {
				pairT = append(pairT, p.coq())
			}
		}
		cf.Add(fmt.Sprintf("{| c11_id := %d; c11_g := %s; c11_netid := %s; c11_go_net := GoNet %s; c11_ids := %s; c11_node := %s; c11_nodes := %s; c11_from := %s; c11_to := %s; c11_pairs := %s; c11_counts := (%d, %d, %d) |}",
			id, gTerm, ZI(in.NetId), c11CoqNet(net), IList(ids), List(nodeT), ZList(view.Nodes), List(fromT), List(toT), List(pairT), view.NC, view.LC, view.CX))
		r.SaveInput(id, in)
		r.Sample(map[string]interface{}{"origin": in.Origin, "nodes": len(v.Nodes), "genes": len(v.Genes), "modules": len(v.Modules), "pairs_queried": len(view.Pairs), "edges": len(spec.E)})
	}
	r.Res.Evaluations += len(view.Pairs) // every ordered pair is one evaluated query set
}

func minInt(a, b int) int {
	if a < b {
		return a
	}
	return b
}

// ---------- organism phenotype cache (cache_fresh; Go side only) ----------

// c11SameExpression: the network is the expression of the genome value (links = enabled genes)
func c11SameExpression(v c11Genome, n *network.Network) string {
	if n == nil {
		return "no phenotype"
	}
	return c11CheckGenesis(v, n)
}

func c11CacheCase(r *Run, in c11Input) {
	fail := func(key, what string, obs interface{}) {
		r.Fail(Failure{Key: key + " mutator=" + in.Mut, What: what, Input: in, Observed: obs})
	}
	g, err := c11Build(in.G)
	if err != nil {
		return
	}
	tmp := opInput{Innov: in.Innov, NextI: in.NextI, NextN: in.NextN}
	env := envFromInput(&tmp)
	rand.Seed(in.Seed)
	var merr error
	func() {
		defer func() {
			if p := recover(); p != nil {
				merr = fmt.Errorf("panic: %v", p)
			}
		}()
		if in.Mut != "" && in.Mut != "none" {
			_, merr = genetics.VMutate(in.Mut, g, env, env, in.Opts, 1, 1)
		}
	}()
	if merr != nil {
		r.Hist("cache_mutator_errors", in.Mut)
		return
	}
	after := c11Value(g)
	// 1. a new organism of the (mutated) genome: its phenotype is the expression of the genome as it is now
	org, err := genetics.NewOrganism(1.0, g, 1)
	if err != nil {
		return
	}
	if c := genetics.VOrgPhenotype(org); c != nil {
		r.Hist("cache_prefilled", "true")
		if d := c11SameExpression(after, c); d != "" {
			fail("cache-stale-at-creation", "NewOrganism cached a phenotype that is not the expression of the genome: "+d, d)
		}
	} else {
		r.Hist("cache_prefilled", "false")
	}
	ph, err := org.Phenotype()
	if err != nil {
		fail("cache-phenotype-error", "Organism.Phenotype failed on a well-formed genome: "+err.Error(), nil)
		return
	}
	if d := c11SameExpression(after, ph); d != "" {
		fail("cache-stale", "Organism.Phenotype() is not the expression of the organism's current genome: "+d, d)
	}
	if ph2, _ := org.Phenotype(); ph2 != ph {
		fail("cache-not-cached", "two calls of Phenotype() returned different networks", nil)
	}
	// 2. the genotype changes under the organism; UpdatePhenotype must rebuild
	seed2 := in.Seed + 1
	rand.Seed(seed2)
	kinds := []string{"toggle_enable", "add_link", "add_node", "gene_reenable", "link_weights"}
	k := kinds[int(uint64(in.Seed)%uint64(len(kinds)))]
	func() {
		defer func() {
			if p := recover(); p != nil {
				merr = fmt.Errorf("panic: %v", p)
			}
		}()
		_, merr = genetics.VMutate(k, org.Genotype, env, env, in.Opts, 1, 1)
	}()
	if merr != nil {
		return
	}
	if err = org.UpdatePhenotype(); err != nil {
		fail("cache-update-error", "UpdatePhenotype failed: "+err.Error(), nil)
		return
	}
	ph3, _ := org.Phenotype()
	if d := c11SameExpression(c11Value(org.Genotype), ph3); d != "" {
		fail("cache-stale-after-update", "after UpdatePhenotype the phenotype is not the expression of the current genome: "+d, d)
	}
	r.Hist("cache_mutator", in.Mut)
	r.Count("cache|"+in.Mut+fmt.Sprint(in.Seed), true)
}

// c11Epochs: through real epochs every organism's phenotype is the expression of its genome
func c11Epochs(r *Run, pops, epochs int) {
	for p := 0; p < pops; p++ {
		opts := randOptions(r.Rng)
		opts.PopSize = 30
		opts.MutateAddLinkProb = 0.3
		opts.MutateAddNodeProb = 0.1
		opts.MutateToggleEnableProb = 0.1
		opts.MutateGeneReenableProb = 0.05
		seed := r.Rng.Int63()
		rand.Seed(seed)
		start := startGenomes()[p%3]
		pop, err := genetics.NewPopulation(start, opts)
		if err != nil {
			r.Note("c11 epochs: " + err.Error())
			continue
		}
		ctx := neat.NewContext(context.Background(), opts)
		ex := &genetics.SequentialPopulationEpochExecutor{}
		for e := 1; e <= epochs; e++ {
			for i, o := range pop.Organisms {
				ph, err := o.Phenotype()
				if err != nil {
					r.Fail(Failure{Key: "epoch-phenotype-error", What: "Phenotype() failed inside an epoch run: " + err.Error(),
						Input: map[string]interface{}{"seed": seed, "epoch": e, "organism": i, "start": p % 3, "opts": opts}})
					continue
				}
				if d := c11SameExpression(c11Value(o.Genotype), ph); d != "" {
					r.Fail(Failure{Key: "epoch-cache-stale", What: "an organism's phenotype is not the expression of its genome: " + d,
						Input: map[string]interface{}{"seed": seed, "epoch": e, "organism": i, "start": p % 3, "opts": opts, "genome": c11Value(o.Genotype)}})
				}
				o.Fitness = 0.5 + float64((i*7+e*3)%11)
				r.Res.Evaluations++
			}
			if err = ex.NextEpoch(ctx, e, pop); err != nil {
				r.Note("c11 epochs: NextEpoch: " + err.Error())
				break
			}
		}
		r.Hist("epoch_runs", "done")
	}
}

// ---------- generators ----------

var c11ModuleActs = []neatmath.NodeActivationType{neatmath.MultiplyModuleActivation, neatmath.MaxModuleActivation, neatmath.MinModuleActivation}

// c11Decorate attaches k modules to a genome value: io nodes drawn from the genome's nodes; with probability
// shareProb a module has one node both as input and as output
func c11Decorate(rng *rand.Rand, v c11Genome, k int, share bool) c11Genome {
	out := v
	out.Modules = append([]c11Module(nil), v.Modules...)
	mx, innov := 0, int64(0)
	for _, n := range v.Nodes {
		if n.Id > mx {
			mx = n.Id
		}
	}
	for _, m := range v.Modules {
		if m.Node.Id > mx {
			mx = m.Node.Id
		}
	}
	for _, x := range v.Genes {
		if x.Innov > innov {
			innov = x.Innov
		}
	}
	ws := []c11F{1.0, 1.0, 0.5, -2.25, 3.0, c11F(math.Copysign(0, -1))}
	for j := 0; j < k; j++ {
		cid := mx + 1 + rng.Intn(3)
		mx = cid
		innov++
		m := c11Module{Node: c11Node{cid, int(network.HiddenNeuron), int(c11ModuleActs[rng.Intn(3)]), 0}, Innov: innov, Mut: c11F(rng.Intn(4)) * 0.5,
			Enabled: rng.Intn(5) != 0}
		nIn, nOut := rng.Intn(4), rng.Intn(3)
		if j == 0 && share {
			m.Enabled = true
			nIn, nOut = 1+rng.Intn(3), 1+rng.Intn(2)
		}
		pick := func() int { return v.Nodes[rng.Intn(len(v.Nodes))].Id }
		for i := 0; i < nIn; i++ {
			m.Ins = append(m.Ins, c11IO{pick(), ws[rng.Intn(len(ws))]})
		}
		for i := 0; i < nOut; i++ {
			m.Outs = append(m.Outs, c11IO{pick(), ws[rng.Intn(len(ws))]})
		}
		if j == 0 && share {
			// the shared node sits at a random position of both lists (also after other entries)
			s := m.Ins[rng.Intn(len(m.Ins))].Id
			m.Outs[rng.Intn(len(m.Outs))].Id = s
		}
		out.Modules = append(out.Modules, m)
	}
	return out
}

// c11AddParallel adds, for up to k enabled genes, a second gene between the same ordered pair with the other
// recurrence flag (the well-formedness statement C01 allows that), sometimes disabling the older one
func c11AddParallel(rng *rand.Rand, v c11Genome, k int) c11Genome {
	out := v
	out.Genes = append([]c11Gene(nil), v.Genes...)
	innov := int64(0)
	for _, x := range v.Genes {
		if x.Innov > innov {
			innov = x.Innov
		}
	}
	for _, m := range v.Modules {
		if m.Innov > innov {
			innov = m.Innov
		}
	}
	for j := 0; j < k && len(v.Genes) > 0; j++ {
		i := rng.Intn(len(v.Genes))
		x := v.Genes[i]
		dup := false
		for _, y := range out.Genes {
			if y.In == x.In && y.Out == x.Out && y.Rec != x.Rec {
				dup = true
			}
		}
		if dup {
			continue
		}
		innov++
		out.Genes = append(out.Genes, c11Gene{x.In, x.Out, !x.Rec, x.W*2 + 1, x.Trait, innov, 0, true})
		if rng.Intn(3) == 0 {
			out.Genes[i].Enabled = !out.Genes[i].Enabled
		}
	}
	return out
}

// c11TestSuiteModular is buildTestModularGenome of neat/genetics/genome_test.go as a value
func c11TestSuiteModular() c11Genome {
	p8 := []float64{0.1, 0, 0, 0, 0, 0, 0, 0}
	lin, null, sig := int(neatmath.LinearActivation), int(neatmath.NullActivation), int(neatmath.SigmoidSteepenedActivation)
	return c11Genome{Id: 1,
		Traits: []c11Trait{{1, p8}, {3, p8}, {2, p8}},
		Nodes: []c11Node{{1, 1, null, 0}, {2, 1, null, 0}, {3, 3, sig, 0}, {4, 2, sig, 0},
			{5, 0, lin, 0}, {6, 0, lin, 0}, {7, 0, null, 0}},
		Genes: []c11Gene{{1, 4, false, 1.5, 1, 1, 0, true}, {2, 4, false, 2.5, 2, 2, 0, true}, {3, 4, false, 3.5, 3, 3, 0, true},
			{1, 5, false, 1.5, 1, 4, 0, true}, {2, 6, false, 2.5, 2, 5, 0, true}, {7, 4, false, 3.5, 3, 6, 0, true}},
		Modules: []c11Module{{Node: c11Node{8, 0, int(neatmath.MultiplyModuleActivation), 0}, Innov: 7, Mut: 5.5, Enabled: true,
			Ins: []c11IO{{5, 1}, {6, 1}}, Outs: []c11IO{{7, 1}}}}}
}

func c11Boundary() []c11Input {
	base := c11TestSuiteModular()
	var out []c11Input
	add := func(origin string, v c11Genome) {
		out = append(out, c11Input{Kind: "graph", Origin: origin, G: v, NetId: v.Id + 9})
	}
	add("testsuite-modular", base)
	v := base
	v.Genes = nil
	add("no-genes", v)
	v = base
	v.Nodes = append([]c11Node(nil), base.Nodes...)
	v.Nodes[3].Type = int(network.HiddenNeuron)
	add("no-outputs", v)
	v = base
	v.Nodes = append([]c11Node(nil), base.Nodes...)
	v.Nodes[3].Type = int(network.HiddenNeuron)
	v.Genes = nil
	add("no-genes-no-outputs", v)
	v = base
	v.Genes = append([]c11Gene(nil), base.Genes...)
	for i := range v.Genes {
		v.Genes[i].Enabled = false
	}
	add("all-genes-disabled", v)
	v = base
	v.Modules = []c11Module{base.Modules[0]}
	v.Modules[0].Enabled = false
	add("only-disabled-module", v)
	// the module shares node 5 as input and output (D11), in every relative position
	for k, io := range [][2][]c11IO{
		{{{5, 1}, {6, 1}}, {{5, 2}, {7, 1}}}, {{{6, 1}, {5, 1}}, {{7, 2}, {5, 0.5}}},
		{{{5, 1}}, {{5, 2}}}, {{{5, 1}, {5, 3}}, {{7, 1}, {5, 2}, {5, 4}}}} {
		v = base
		v.Modules = []c11Module{base.Modules[0]}
		v.Modules[0].Ins, v.Modules[0].Outs = io[0], io[1]
		add(fmt.Sprintf("module-shared-io-%d", k), v)
	}
	// parallel genes between the same ordered pair (recurrent and not), self loops, mutual links
	v = base
	v.Genes = append(append([]c11Gene(nil), base.Genes...),
		c11Gene{1, 4, true, -7.5, 1, 8, 0, true}, c11Gene{4, 4, true, 0.25, 1, 9, 0, true}, c11Gene{4, 5, true, 2, 1, 10, 0, true},
		c11Gene{5, 4, false, 3, 1, 11, 0, true}, c11Gene{5, 5, true, 9, 1, 12, 0, false}, c11Gene{6, 6, true, c11F(math.Copysign(0, -1)), 1, 13, 0, true},
		c11Gene{2, 4, true, 11, 1, 14, 0, false})
	add("parallel-self-mutual", v)
	// first of two parallel genes disabled: the edge must carry the weight of the enabled one
	v = base
	v.Genes = append([]c11Gene{{1, 4, true, 100, 1, 0, 0, false}}, base.Genes...)
	add("parallel-first-disabled", v)
	// two modules, the second feeding from the io nodes of the first; empty module
	v = base
	v.Modules = append([]c11Module{base.Modules[0]}, c11Module{Node: c11Node{9, 0, int(neatmath.MaxModuleActivation), 0}, Innov: 8, Enabled: true,
		Ins: []c11IO{{7, 1}, {5, 2}}, Outs: []c11IO{{4, 1}, {6, 1}}},
		c11Module{Node: c11Node{12, 0, int(neatmath.MinModuleActivation), 0}, Innov: 9, Enabled: true})
	add("three-modules", v)
	// weights: NaN, infinities, negative zero
	v = base
	v.Genes = append([]c11Gene(nil), base.Genes...)
	v.Genes[0].W, v.Genes[1].W, v.Genes[2].W, v.Genes[3].W = c11F(math.NaN()), c11F(math.Inf(1)), c11F(math.Copysign(0, -1)), c11F(math.Inf(-1))
	add("special-weights", v)
	// single node genome with a self loop
	add("one-node", c11Genome{Id: 3, Nodes: []c11Node{{1, 2, 1, 0}}, Genes: []c11Gene{{1, 1, true, 1.5, 0, 1, 0, true}}})
	// node ids that are not ascending and include 0 and a negative id
	add("odd-ids", c11Genome{Id: 4, Nodes: []c11Node{{7, 1, 0, 0}, {0, 2, 1, 0}, {-3, 0, 1, 0}, {5, 3, 0, 0}},
		Genes:   []c11Gene{{7, -3, false, 1, 0, 1, 0, true}, {-3, 0, false, 2, 0, 2, 0, true}, {5, 0, false, 3, 0, 3, 0, false}, {0, -3, true, 4, 0, 4, 0, true}},
		Modules: []c11Module{{Node: c11Node{-9, 0, int(neatmath.MultiplyModuleActivation), 0}, Innov: 5, Enabled: true, Ins: []c11IO{{7, 1}, {0, 1}}, Outs: []c11IO{{0, 2}}}}})
	return out
}

func c11YAMLSeed() (c11Genome, error) {
	f := repoRoot() + "/data/test_seed_genome.yml"
	b, err := os.ReadFile(f)
	if err != nil {
		return c11Genome{}, err
	}
	rd, err := genetics.NewGenomeReader(strings.NewReader(string(b)), genetics.YAMLGenomeEncoding)
	if err != nil {
		return c11Genome{}, err
	}
	g, err := rd.Read()
	if err != nil {
		return c11Genome{}, err
	}
	return c11Value(g), nil
}

// c11Evolve runs one operator history on the real operators and returns well-formed descendants
func c11Evolve(r *Run, steps int) (*family, []*genetics.Genome) {
	o := &opsGen{r: r, prop: "C11"}
	f := newFamily(r.Rng)
	f.opts.MutateToggleEnableProb = 0.3
	var made []*genetics.Genome
	weights := []int{2, 5, 5, 2, 1, 1, 1, 1, 4, 1, 2}
	total := 0
	for _, w := range weights {
		total += w
	}
	for s := 0; s < steps; s++ {
		rng := r.Rng
		if rng.Intn(8) == 0 {
			f.env.Innovs = nil
		}
		g := f.pick(rng)
		var out opOutcome
		if rng.Float64() < 0.25 && len(f.members) > 1 {
			g2 := f.pick(rng)
			fit := []float64{0, 1, 1, 2.5}
			op := opSpec{Kind: "mate", Method: rng.Intn(3), NewId: 100 + s, F1: JF(fit[rng.Intn(4)]), F2: JF(fit[rng.Intn(4)])}
			out = o.apply(op, g, g2, f.env, f.opts, false)
		} else {
			k, x := 0, rng.Intn(total)
			for i, w := range weights {
				if x < w {
					k = i
					break
				}
				x -= w
			}
			child, err := genetics.VDuplicate(g, 100+s)
			if err != nil {
				continue
			}
			out = o.apply(opSpec{Kind: "mut", Mut: k, Times: 1 + rng.Intn(3)}, child, nil, f.env, f.opts, false)
		}
		if out.err != nil || out.child == nil || wfGenome(out.child) != nil {
			continue
		}
		f.members = append(f.members, out.child)
		made = append(made, out.child)
	}
	return f, made
}

func runC11(r *Run) error {
	quiet()
	r.Res.Rule = "genomes evolved by real operator histories (duplicate+mutator / crossover; disabled, recurrent, self-loop and parallel genes) plus the same genomes " +
		"decorated with 0-2 modules (enabled or not, io nodes drawn at random, one module sharing a node as input and output), the test-suite modular genomes and boundary genomes " +
		"(no genes, no outputs, all disabled, odd ids, special weights); each expressed by the real Genesis and every graph query evaluated on ALL ordered pairs of V + two absent ids; " +
		"organism phenotype cache checked after NewOrganism / mutation / UpdatePhenotype and through real epochs (Go side); evaluations count ordered pairs; " +
		"non-trivial = genome has a disabled, recurrent or self-loop gene or an enabled module; distinct by genome"
	id, shard, perShard := 0, 0, 0
	imports := "Res F64 Genome Genesis Graph GenomeLit C11Cases"
	cf := r.NewCaseFile(shard, imports, "c11_case")
	add := func(in c11Input) {
		if perShard >= 30 {
			cf.Close("c11_mismatches")
			shard++
			cf = r.NewCaseFile(shard, imports, "c11_case")
			perShard = 0
		}
		c11GraphCase(r, cf, id, in)
		id++
		perShard++
	}
	for _, in := range c11Boundary() {
		add(in)
	}
	if v, err := c11YAMLSeed(); err == nil {
		add(c11Input{Kind: "graph", Origin: "yaml-seed-genome", G: v, NetId: 1})
		add(c11Input{Kind: "graph", Origin: "yaml-seed-genome-decorated", G: c11Decorate(r.Rng, v, 1, true), NetId: 1})
	} else {
		r.Note("c11: data/test_seed_genome.yml not readable: " + err.Error())
	}
	histories := r.N(44, 600)
	perHistory := 9
	cacheCases := 0
	for h := 0; h < histories; h++ {
		f, made := c11Evolve(r, 45)
		if len(made) == 0 {
			continue
		}
		c11Reexpress(r, made[len(made)-1])
		c11Reexpress(r, made[r.Rng.Intn(len(made))])
		// sample descendants, later ones preferred (they are bigger)
		for k := 0; k < perHistory; k++ {
			var g *genetics.Genome
			if k < 3 {
				g = made[len(made)-1-r.Rng.Intn(minInt(5, len(made)))]
			} else {
				g = made[r.Rng.Intn(len(made))]
			}
			v := c11Value(g)
			origin := "evolved"
			switch k % 3 {
			case 1:
				v = c11Decorate(r.Rng, v, 1+r.Rng.Intn(2), r.Rng.Intn(2) == 0)
				origin = "evolved+modules"
			case 2:
				if r.Rng.Intn(2) == 0 {
					v = c11Decorate(r.Rng, v, 2, true)
					origin = "evolved+modules"
				} else {
					v = c11AddParallel(r.Rng, v, 1+r.Rng.Intn(2))
					origin = "evolved+parallel"
					if r.Rng.Intn(2) == 0 {
						v = c11Decorate(r.Rng, v, 1, false)
						origin = "evolved+parallel+modules"
					}
				}
			}
			add(c11Input{Kind: "graph", Origin: origin, G: v, NetId: r.Rng.Intn(50)})
		}
		// cache cases on members of this family
		for k := 0; k < 6; k++ {
			g := f.pick(r.Rng)
			mut := []string{"add_link", "add_link", "add_node", "toggle_enable", "gene_reenable", "none", "connect_sensors", "all_nonstructural"}[r.Rng.Intn(8)]
			in := c11Input{Kind: "cache", Origin: "evolved", G: c11Value(g), Mut: mut, Seed: r.Rng.Int63(), Opts: f.opts, NextI: f.env.NextI, NextN: f.env.NextN}
			for _, i := range f.env.Innovs {
				in.Innov = append(in.Innov, innovJSON{Type: genetics.VInnovationType(i), I: i})
			}
			c11CacheCase(r, in)
			cacheCases++
		}
	}
	cf.Close("c11_mismatches")
	c11Epochs(r, r.N(3, 20), r.N(8, 25))
	r.Hist("cache_cases", fmt.Sprint(cacheCases))
	return nil
}

func replayC11(r *Run, input []byte) error {
	var in c11Input
	if err := json.Unmarshal(input, &in); err != nil {
		return err
	}
	quiet()
	if in.Kind == "cache" {
		c11CacheCase(r, in)
		return nil
	}
	if in.Kind == "" {
		return fmt.Errorf("epoch-level findings are replayed by re-running the check with the recorded seed")
	}
	c11GraphCase(r, nil, 0, in)
	return nil
}
