package main

import (
	"encoding/json"
	"fmt"
	"math"
	"math/rand"
)

// C13: flushing makes a network indistinguishable from a fresh one.
// Networks of any topology (self-loops, 2- and 3-cycles, time-delayed links, links into sensors), random operation
// sequences (history; Flush; sequence) on the real Network and the real fast solver. Correspondence: result, outputs and
// full state after every operation against the Coq model (cases/C13Cases.v, same format as C12). Go-side oracle: the
// operations after the Flush give exactly the results and outputs of the same operations on a freshly built instance.
// Uses the helpers of c12.go.

func init() {
	runners["C13"] = runC13
	replayers["C13"] = replayC13
}

func c13SameFloats(a, b []float64) bool {
	if len(a) != len(b) {
		return false
	}
	for i := range a {
		if math.Float64bits(a[i]) != math.Float64bits(b[i]) && !(math.IsNaN(a[i]) && math.IsNaN(b[i])) {
			return false
		}
	}
	return true
}

// runs come in pairs: runs[2j] = history ++ [Flush] ++ sequence (Fresh = index of the first operation of sequence),
// runs[2j+1] = sequence on a fresh instance
func c13One(r *Run, cf *CaseFile, id int, in c12Input) {
	quiet()
	c12InstallRecorder()
	c12ResetTable()
	net0, _ := c12Build(in.Net)
	fs0, fastCode := c12FastBuild(net0)
	static := c12Static(fs0)
	runs := make([][]c12Obs, len(in.Runs))
	for i, run := range in.Runs {
		runs[i], _ = c12Exec(in.Net, run)
	}
	for j := 0; j+1 < len(in.Runs); j += 2 {
		a, b := in.Runs[j], in.Runs[j+1]
		if a.Fresh <= 0 || runs[j] == nil || runs[j+1] == nil {
			continue
		}
		name := "std"
		if a.Solver == 1 {
			name = "fast"
		}
		if runs[j][a.Fresh-1].Code != 1 {
			r.Fail(Failure{Key: fmt.Sprintf("%s-flush-fails family=%s", name, in.Family),
				What:     name + " solver: Flush reports failure",
				Input:    c12Input{Net: in.Net, Runs: []c12Run{a, b}, Family: in.Family},
				Observed: map[string]interface{}{"code": runs[j][a.Fresh-1].Code}, Required: map[string]interface{}{"code": 1}})
			continue
		}
		for t := range b.Ops {
			fa, fb := runs[j][a.Fresh+t], runs[j+1][t]
			if fa.Code != fb.Code || !c13SameFloats(fa.Outs, fb.Outs) {
				r.Fail(Failure{Key: fmt.Sprintf("%s-flush family=%s nodes=%d", name, in.Family, len(in.Net.Nodes)),
					What:  fmt.Sprintf("%s solver: operation %d after Flush behaves differently from the same operation on a fresh instance", name, t),
					Input: c12Input{Net: in.Net, Runs: []c12Run{a, b}, Family: in.Family},
					Observed: map[string]interface{}{"after_flush_code": fa.Code, "after_flush_outputs": fmt.Sprint(fa.Outs),
						"codes_after_flush": c12Codes(runs[j][a.Fresh:])},
					Required: map[string]interface{}{"fresh_code": fb.Code, "fresh_outputs": fmt.Sprint(fb.Outs), "codes_fresh": c12Codes(runs[j+1])}})
				break
			}
		}
	}
	if cf != nil {
		cf.Add(c12CaseTerm(id, in, fastCode, static, runs))
		r.SaveInput(id, in)
	}
	ff := c12Analyse(in.Net)
	nops := 0
	for _, run := range in.Runs {
		nops += len(run.Ops)
	}
	r.Count(c12Digest(in)+fmt.Sprint(nops), !ff.ok)
	r.Hist("family", in.Family)
	r.Hist("nodes", fmt.Sprint(len(in.Net.Nodes)))
	if ff.ok {
		r.Hist("topology", "feed-forward")
	} else {
		r.Hist("topology", ff.why)
	}
	r.Sample(map[string]interface{}{"family": in.Family, "net": in.Net, "runs": in.Runs})
}

// ---- generators ----

type c13Gen struct {
	nIn, nBias, nHid, nOut int
	pEdge                  float64
	family                 string
	pTD                    float64
	intoSensors            bool
	shuffle                bool
}

func c13GenGraph(rng *rand.Rand, g c13Gen) c12Net {
	var roles []int
	for i := 0; i < g.nIn; i++ {
		roles = append(roles, 1)
	}
	for i := 0; i < g.nBias; i++ {
		roles = append(roles, 3)
	}
	for i := 0; i < g.nHid; i++ {
		roles = append(roles, 0)
	}
	for i := 0; i < g.nOut; i++ {
		roles = append(roles, 2)
	}
	N := len(roles)
	ns := g.nIn + g.nBias
	edge := map[[2]int]bool{}
	var neurons []int
	for i := ns; i < N; i++ {
		neurons = append(neurons, i)
	}
	for _, b := range neurons {
		for a := 0; a < N; a++ {
			if rng.Float64() < g.pEdge {
				edge[[2]int{a, b}] = true
			}
		}
	}
	pick := func(k int) []int {
		p := rng.Perm(len(neurons))
		out := make([]int, 0, k)
		for i := 0; i < k && i < len(p); i++ {
			out = append(out, neurons[p[i]])
		}
		return out
	}
	switch g.family {
	case "self-loop":
		for _, v := range pick(1 + rng.Intn(2)) {
			edge[[2]int{v, v}] = true
		}
	case "2-cycle":
		if c := pick(2); len(c) == 2 {
			edge[[2]int{c[0], c[1]}] = true
			edge[[2]int{c[1], c[0]}] = true
		}
	case "3-cycle":
		if c := pick(3); len(c) == 3 {
			edge[[2]int{c[0], c[1]}] = true
			edge[[2]int{c[1], c[2]}] = true
			edge[[2]int{c[2], c[0]}] = true
		}
	}
	// make sure every output has some incoming link, otherwise most runs only report "outputs off"
	for i := N - g.nOut; i < N; i++ {
		has := false
		for a := 0; a < N; a++ {
			if edge[[2]int{a, i}] {
				has = true
			}
		}
		if !has {
			edge[[2]int{rng.Intn(N), i}] = true
		}
	}
	if g.intoSensors && ns > 0 {
		edge[[2]int{ns + rng.Intn(N-ns), rng.Intn(ns)}] = true
	}
	perm := make([]int, N)
	for i := range perm {
		perm[i] = i
	}
	if g.shuffle {
		rng.Shuffle(N, func(i, j int) { perm[i], perm[j] = perm[j], perm[i] })
	}
	palette := c12AllActs
	if rng.Intn(3) == 0 {
		palette = []int{c12AllActs[rng.Intn(len(c12AllActs))]}
	}
	net := c12Net{Nodes: make([]c12Node, N)}
	for b := 0; b < N; b++ {
		nd := c12Node{Role: roles[b], Act: 17, In: []c12Link{}}
		if roles[b] == 0 || roles[b] == 2 {
			nd.Act = palette[rng.Intn(len(palette))]
		}
		for a := 0; a < N; a++ {
			if edge[[2]int{a, b}] {
				nd.In = append(nd.In, c12Link{Src: perm[a], W: rng.NormFloat64() * 0.8, TD: rng.Float64() < g.pTD})
			}
		}
		rng.Shuffle(len(nd.In), func(i, j int) { nd.In[i], nd.In[j] = nd.In[j], nd.In[i] })
		net.Nodes[perm[b]] = nd
	}
	net.Inputs, net.Outputs = []int{}, []int{}
	for p, nd := range net.Nodes {
		if nd.Role == 1 || nd.Role == 3 {
			net.Inputs = append(net.Inputs, p)
		}
		if nd.Role == 2 {
			net.Outputs = append(net.Outputs, p)
		}
	}
	if rng.Intn(4) == 0 {
		rng.Shuffle(len(net.Inputs), func(i, j int) { net.Inputs[i], net.Inputs[j] = net.Inputs[j], net.Inputs[i] })
	}
	return net
}

func c13RandOps(rng *rand.Rand, n c12Net, solver int, count int, allowFlush bool) []c12Op {
	nIn, nBias := c12CountRole(n, 1), c12CountRole(n, 3)
	ops := make([]c12Op, 0, count)
	for i := 0; i < count; i++ {
		var o c12Op
		switch k := rng.Intn(20); {
		case k < 7:
			ar := nIn
			if solver == 0 && rng.Intn(4) == 0 {
				ar = nIn + nBias // bias values supplied by the caller
			}
			if rng.Intn(25) == 0 {
				ar = rng.Intn(nIn + nBias + 2)
			}
			o = c12Op{Kind: c12Load, X: c12RandVec(rng, ar)}
		case k < 12:
			o = c12Op{Kind: c12Forward, K: []int{1, 1, 2, 2, 3, 4, 0, 6}[rng.Intn(8)]}
		case k < 15:
			o = c12Op{Kind: c12Recursive}
		case k < 19 || !allowFlush:
			o = c12Op{Kind: c12Relax, K: 1 + rng.Intn(4), Delta: []float64{0, 0.001, 0.1, -1, 0.5}[rng.Intn(5)]}
		default:
			o = c12Op{Kind: c12Flush}
		}
		ops = append(ops, o)
	}
	return ops
}

func c13Runs(rng *rand.Rand, n c12Net) []c12Run {
	var runs []c12Run
	for solver := 0; solver <= 1; solver++ {
		hist := c13RandOps(rng, n, solver, rng.Intn(7), true)
		seq := c13RandOps(rng, n, solver, 1+rng.Intn(6), true)
		ops := append(append(append([]c12Op{}, hist...), c12Op{Kind: c12Flush}), seq...)
		runs = append(runs, c12Run{Solver: solver, Ops: ops, State: 2, Fresh: len(hist) + 1},
			c12Run{Solver: solver, Ops: seq, State: 2})
	}
	return runs
}

func runC13(r *Run) error {
	r.Res.Rule = "random directed graphs on 1-3 inputs, 0-2 bias, 0-5 hidden, 1-2 outputs (edge probability 0.15-0.45 into every neuron, self-loops allowed), " +
		"forced self-loop / 2-cycle / 3-cycle families, time-delayed links, links into sensors, shuffled node order; per solver a random history of 0-6 operations, " +
		"Flush, then 1-6 operations, compared with the same operations on a fresh instance; non-trivial = the graph is not feed-forward; distinct by network and operations"
	c13DirectSolvers(r)
	depthQueryHistories(r, "C13")
	twoSolversOneNetwork(r, "C13")
	var inputs []c12Input
	fams := []string{"random", "self-loop", "2-cycle", "3-cycle", "time-delayed", "into-sensors", "feed-forward-ish"}
	n := r.N(300, 4000)
	for i := 0; i < n; i++ {
		fam := fams[i%len(fams)]
		g := c13Gen{nIn: 1 + r.Rng.Intn(3), nBias: r.Rng.Intn(3), nHid: r.Rng.Intn(6), nOut: 1 + r.Rng.Intn(2),
			pEdge: 0.15 + 0.3*r.Rng.Float64(), family: fam, shuffle: r.Rng.Intn(2) == 0}
		switch fam {
		case "time-delayed":
			g.pTD = 0.4
		case "into-sensors":
			g.intoSensors = true
		case "3-cycle":
			if g.nHid < 2 {
				g.nHid = 2
			}
		case "feed-forward-ish":
			g.pEdge = 0.12
		}
		net := c13GenGraph(r.Rng, g)
		inputs = append(inputs, c12Input{Net: net, Runs: c13Runs(r.Rng, net), Family: fam})
	}
	perShard := (len(inputs) + 15) / 16
	if perShard > 250 {
		perShard = 250
	}
	shard, inShard := 0, 0
	cf := r.NewCaseFile(shard, "Res Net Fast C12Cases C13Cases", "c13_case")
	for id, in := range inputs {
		if inShard >= perShard {
			cf.Close("c13_mismatches")
			shard++
			inShard = 0
			cf = r.NewCaseFile(shard, "Res Net Fast C12Cases C13Cases", "c13_case")
		}
		c13One(r, cf, id, in)
		inShard++
	}
	cf.Close("c13_mismatches")
	c13mCases(r) // modular networks: harness/c13_mod.go
	return nil
}

func replayC13(r *Run, input []byte) error {
	var in c12Input
	if err := json.Unmarshal(input, &in); err != nil {
		return err
	}
	c13One(r, nil, 0, in)
	return nil
}
