package main

import (
	"bytes"
	"encoding/json"
	"errors"
	"fmt"
	"math"
	"math/rand"
	"strconv"
	"strings"

	neatmath "github.com/yaricom/goNEAT/v4/neat/math"
	"github.com/yaricom/goNEAT/v4/neat/network"
)

// C15, fast-solver model file (neat/network/fast_network_model_io.go) against coq/model/Fmns.v.
//
// Correspondence, every direction separately (coq/cases/FmnsCases.v):
//   ObsNet   network description -> the solver Network.FastNetworkSolver built (hooks)   = solver_of (fast_of_net n)
//   ObsWrite solver -> WriteModel's text, decoded generically by encoding/json            = fmns_write
//   ObsRead  document (generic decoding of a text) -> what ReadFMNSModel did with the text = fmns_read
//   ObsRun   operations on the solver ReadFMNSModel returned, results / outputs / state    = Fast.v on fnet_of
// Go-side oracle (independent of the model): a solver with registered activation types and finite numbers is
// written, read back with the same static description (counts, activation types, bias list, connections in
// order with weights and signals, modules, id, name) and computes bit-identical results and outputs under the same
// operation sequences as a fresh original; a solver holding NaN / Inf or an unregistered type is refused by the
// writer; a document naming an unknown activation is refused by the reader.

// ---- static description of a solver (also the replay form; floats travel as strings) ----

type c15FmLink struct {
	Src int     `json:"src"`
	Tgt int     `json:"tgt"`
	W   float64 `json:"-"`
	Sig float64 `json:"-"`
	WS  string  `json:"w"`
	SS  string  `json:"sig"`
}
type c15FmMod struct {
	Act  int   `json:"act"`
	Ins  []int `json:"ins"`
	Outs []int `json:"outs"`
}
type c15FmSolver struct {
	Id      int         `json:"id"`
	Name    string      `json:"name"`
	Bias    int         `json:"bias"`
	In      int         `json:"in"`
	Out     int         `json:"out"`
	Total   int         `json:"total"`
	Acts    []int       `json:"acts"`
	Biases  []float64   `json:"-"`
	BiasesS []string    `json:"biases"`
	Conns   []c15FmLink `json:"conns"`
	Mods    []c15FmMod  `json:"mods"`
	NilMods bool        `json:"nil_mods,omitempty"` // pass a nil module slice to the constructor
}

func (s *c15FmSolver) toStrings() {
	s.BiasesS = make([]string, len(s.Biases))
	for i, b := range s.Biases {
		s.BiasesS[i] = c15fs(b)
	}
	for i := range s.Conns {
		s.Conns[i].WS, s.Conns[i].SS = c15fs(s.Conns[i].W), c15fs(s.Conns[i].Sig)
	}
}
func (s *c15FmSolver) fromStrings() {
	s.Biases = make([]float64, len(s.BiasesS))
	for i, b := range s.BiasesS {
		s.Biases[i] = c15pf(b)
	}
	for i := range s.Conns {
		s.Conns[i].W, s.Conns[i].Sig = c15pf(s.Conns[i].WS), c15pf(s.Conns[i].SS)
	}
}

func c15FmClone(s c15FmSolver) c15FmSolver {
	t := s
	t.Acts = append([]int{}, s.Acts...)
	t.Biases = append([]float64{}, s.Biases...)
	t.Conns = append([]c15FmLink{}, s.Conns...)
	t.Mods = nil
	for _, m := range s.Mods {
		t.Mods = append(t.Mods, c15FmMod{Act: m.Act, Ins: append([]int{}, m.Ins...), Outs: append([]int{}, m.Outs...)})
	}
	return t
}

// c15FmPanicCode classifies a recovered panic: 1 index out of range, 2 makeslice, 3 nil dereference, 99 other
func c15FmPanicCode(p interface{}) int {
	s := fmt.Sprint(p)
	switch {
	case strings.Contains(s, "index out of range"):
		return 1
	case strings.Contains(s, "makeslice"):
		return 2
	case strings.Contains(s, "nil pointer"):
		return 3
	}
	return 99
}

// c15FmConstruct calls the real constructor on a description (panic code 0 = it returned)
func c15FmConstruct(s c15FmSolver) (f *network.FastModularNetworkSolver, panicCode int) {
	defer func() {
		if p := recover(); p != nil {
			f, panicCode = nil, c15FmPanicCode(p)
		}
	}()
	acts := make([]neatmath.NodeActivationType, len(s.Acts))
	for i, a := range s.Acts {
		acts[i] = neatmath.NodeActivationType(a)
	}
	conns := make([]*network.FastNetworkLink, len(s.Conns))
	for i, c := range s.Conns {
		conns[i] = &network.FastNetworkLink{SourceIndex: c.Src, TargetIndex: c.Tgt, Weight: c.W, Signal: c.Sig}
	}
	var mods []*network.FastControlNode
	if !s.NilMods {
		mods = make([]*network.FastControlNode, 0, len(s.Mods))
	}
	for _, m := range s.Mods {
		mods = append(mods, &network.FastControlNode{ActivationType: neatmath.NodeActivationType(m.Act),
			InputIndexes: append([]int{}, m.Ins...), OutputIndexes: append([]int{}, m.Outs...)})
	}
	f = network.NewFastModularNetworkSolver(s.Bias, s.In, s.Out, s.Total, acts, conns, append([]float64{}, s.Biases...), mods)
	f.Id, f.Name = s.Id, s.Name
	return f, 0
}

// c15FmObserve reads the static description of a real solver through the verif hooks
func c15FmObserve(f *network.FastModularNetworkSolver) c15FmSolver {
	st := network.VerifFastSolverStatic(f)
	sigs, mods := network.VerifFastSolverExtra(f)
	s := c15FmSolver{Id: f.Id, Name: f.Name, Bias: st.Bias, In: st.In, Out: st.Out, Total: st.Total,
		Acts: append([]int{}, st.Activations...), Biases: append([]float64{}, st.Biases...)}
	for i := range st.Sources {
		s.Conns = append(s.Conns, c15FmLink{Src: st.Sources[i], Tgt: st.Targets[i], W: st.Weights[i], Sig: sigs[i]})
	}
	for _, m := range mods {
		s.Mods = append(s.Mods, c15FmMod{Act: m.Activation, Ins: m.Inputs, Outs: m.Outputs})
	}
	return s
}

func c15FmBits(x float64) uint64 {
	if math.IsNaN(x) {
		return 0x7ff8000000000001
	}
	return math.Float64bits(x)
}

// c15FmDiff names the first field in which two static descriptions differ ("" if none)
func c15FmDiff(a, b c15FmSolver) string {
	ints := func(x, y []int) bool {
		if len(x) != len(y) {
			return false
		}
		for i := range x {
			if x[i] != y[i] {
				return false
			}
		}
		return true
	}
	switch {
	case a.Id != b.Id:
		return "id"
	case a.Name != b.Name:
		return "name"
	case a.Bias != b.Bias:
		return "bias-count"
	case a.In != b.In:
		return "input-count"
	case a.Out != b.Out:
		return "output-count"
	case a.Total != b.Total:
		return "total-count"
	case !ints(a.Acts, b.Acts):
		return "activation-types"
	case len(a.Biases) != len(b.Biases):
		return "bias-list"
	case len(a.Conns) != len(b.Conns):
		return "connection-count"
	case len(a.Mods) != len(b.Mods):
		return "module-count"
	}
	for i := range a.Biases {
		if c15FmBits(a.Biases[i]) != c15FmBits(b.Biases[i]) {
			return "bias-list"
		}
	}
	for i := range a.Conns {
		x, y := a.Conns[i], b.Conns[i]
		if x.Src != y.Src || x.Tgt != y.Tgt {
			return "connection-order-or-endpoints"
		}
		if c15FmBits(x.W) != c15FmBits(y.W) {
			return "connection-weight"
		}
		if c15FmBits(x.Sig) != c15FmBits(y.Sig) {
			return "connection-signal"
		}
	}
	for i := range a.Mods {
		if a.Mods[i].Act != b.Mods[i].Act || !ints(a.Mods[i].Ins, b.Mods[i].Ins) || !ints(a.Mods[i].Outs, b.Mods[i].Outs) {
			return "modules"
		}
	}
	return ""
}

// ---- the document as a value ----

type c15FmDocLink struct {
	Null bool
	L    c15FmLink
}
type c15FmDocMod struct {
	Act       string
	Ins, Outs []int64
}
type c15FmDoc struct {
	Id                           int64
	Name                         string
	In, Sensor, Out, Bias, Total int64
	Acts                         []string
	Biases                       []float64
	Conns                        []c15FmDocLink
	HasMods                      bool
	Mods                         []c15FmDocMod
	Absent                       map[string]bool // keys left out when the document is rendered (reader side only)
}

var c15FmKeys = []string{"id", "name", "input_neuron_count", "sensor_neuron_count", "output_neuron_count", "bias_neuron_count",
	"total_neuron_count", "activation_functions", "bias_list", "connections"}

// c15FmDecode decodes a JSON text generically (no struct of the library involved) into the document value.
// strict: exactly the writer's keys must be present ("modules" optional); otherwise a missing key is the zero value.
func c15FmDecode(text string, strict bool) (d c15FmDoc, err error) {
	defer func() {
		if p := recover(); p != nil {
			err = fmt.Errorf("document shape: %v", p)
		}
	}()
	dec := json.NewDecoder(strings.NewReader(text))
	dec.UseNumber()
	var v interface{}
	if e := dec.Decode(&v); e != nil {
		return d, e
	}
	m, ok := v.(map[string]interface{})
	if !ok {
		return d, fmt.Errorf("document shape: not an object")
	}
	if strict {
		for _, k := range c15FmKeys {
			if _, ok := m[k]; !ok {
				return d, fmt.Errorf("document shape: key %q missing", k)
			}
		}
	}
	known := map[string]bool{"modules": true}
	for _, k := range c15FmKeys {
		known[k] = true
	}
	for k := range m {
		if !known[k] {
			return d, fmt.Errorf("document shape: unexpected key %q", k)
		}
	}
	num := func(x interface{}) int64 {
		if x == nil {
			return 0
		}
		n, e := strconv.ParseInt(string(x.(json.Number)), 10, 64)
		if e != nil {
			panic(e)
		}
		return n
	}
	flt := func(x interface{}) float64 {
		if x == nil {
			return 0
		}
		f, e := strconv.ParseFloat(string(x.(json.Number)), 64)
		if e != nil {
			panic(e)
		}
		return f
	}
	arr := func(x interface{}) []interface{} {
		if x == nil {
			return nil
		}
		return x.([]interface{})
	}
	nums := func(x interface{}) []int64 {
		out := []int64{}
		for _, e := range arr(x) {
			out = append(out, num(e))
		}
		return out
	}
	d.Id = num(m["id"])
	if m["name"] != nil {
		d.Name = m["name"].(string)
	}
	d.In, d.Sensor, d.Out = num(m["input_neuron_count"]), num(m["sensor_neuron_count"]), num(m["output_neuron_count"])
	d.Bias, d.Total = num(m["bias_neuron_count"]), num(m["total_neuron_count"])
	for _, e := range arr(m["activation_functions"]) {
		d.Acts = append(d.Acts, e.(string))
	}
	for _, e := range arr(m["bias_list"]) {
		d.Biases = append(d.Biases, flt(e))
	}
	for _, e := range arr(m["connections"]) {
		if e == nil {
			d.Conns = append(d.Conns, c15FmDocLink{Null: true})
			continue
		}
		o := e.(map[string]interface{})
		if strict && len(o) != 4 {
			panic("connection object does not have four keys")
		}
		for k := range o {
			if k != "source_index" && k != "target_index" && k != "weight" && k != "signal" {
				panic("unexpected connection key " + k)
			}
		}
		d.Conns = append(d.Conns, c15FmDocLink{L: c15FmLink{Src: int(num(o["source_index"])), Tgt: int(num(o["target_index"])),
			W: flt(o["weight"]), Sig: flt(o["signal"])}})
	}
	if ms, ok := m["modules"]; ok && ms != nil {
		d.HasMods = true
		for _, e := range arr(ms) {
			o := e.(map[string]interface{})
			for k := range o {
				if k != "activation_type" && k != "input_indexes" && k != "output_indexes" {
					panic("unexpected module key " + k)
				}
			}
			dm := c15FmDocMod{Ins: nums(o["input_indexes"]), Outs: nums(o["output_indexes"])}
			if o["activation_type"] != nil {
				dm.Act = o["activation_type"].(string)
			}
			d.Mods = append(d.Mods, dm)
		}
	}
	return d, nil
}

// c15FmRender writes a document value as JSON text (the harness' own renderer: nothing of the library involved)
func c15FmRender(d c15FmDoc) string {
	var b strings.Builder
	first := true
	key := func(k string) bool {
		if d.Absent[k] {
			return false
		}
		if !first {
			b.WriteString(",")
		}
		first = false
		b.WriteString(strconv.Quote(k) + ":")
		return true
	}
	str := func(s string) string {
		x, _ := json.Marshal(s)
		return string(x)
	}
	ints := func(xs []int64) string {
		it := make([]string, len(xs))
		for i, x := range xs {
			it[i] = strconv.FormatInt(x, 10)
		}
		return "[" + strings.Join(it, ",") + "]"
	}
	fl := func(x float64) string { return strconv.FormatFloat(x, 'g', -1, 64) }
	b.WriteString("{")
	if key("id") {
		b.WriteString(strconv.FormatInt(d.Id, 10))
	}
	if key("name") {
		b.WriteString(str(d.Name))
	}
	for _, kv := range []struct {
		k string
		v int64
	}{{"input_neuron_count", d.In}, {"sensor_neuron_count", d.Sensor}, {"output_neuron_count", d.Out},
		{"bias_neuron_count", d.Bias}, {"total_neuron_count", d.Total}} {
		if key(kv.k) {
			b.WriteString(strconv.FormatInt(kv.v, 10))
		}
	}
	if key("activation_functions") {
		it := make([]string, len(d.Acts))
		for i, a := range d.Acts {
			it[i] = str(a)
		}
		b.WriteString("[" + strings.Join(it, ",") + "]")
	}
	if key("bias_list") {
		it := make([]string, len(d.Biases))
		for i, x := range d.Biases {
			it[i] = fl(x)
		}
		b.WriteString("[" + strings.Join(it, ",") + "]")
	}
	if key("connections") {
		it := make([]string, len(d.Conns))
		for i, c := range d.Conns {
			if c.Null {
				it[i] = "null"
			} else {
				it[i] = fmt.Sprintf(`{"source_index":%d,"target_index":%d,"weight":%s,"signal":%s}`, c.L.Src, c.L.Tgt, fl(c.L.W), fl(c.L.Sig))
			}
		}
		b.WriteString("[" + strings.Join(it, ",") + "]")
	}
	if d.HasMods && key("modules") {
		it := make([]string, len(d.Mods))
		for i, m := range d.Mods {
			it[i] = fmt.Sprintf(`{"activation_type":%s,"input_indexes":%s,"output_indexes":%s}`, str(m.Act), ints(m.Ins), ints(m.Outs))
		}
		b.WriteString("[" + strings.Join(it, ",") + "]")
	}
	b.WriteString("}\n")
	return b.String()
}

// ---- Gallina terms ----

func c15FmStr(s string) string { return `"` + strings.ReplaceAll(s, `"`, `""`) + `"` }

func c15FmI64List(xs []int64) string { return ZList(xs) }

func c15FmLinkTerm(c c15FmLink) string {
	return fmt.Sprintf("SL %s %s %s %s", ZI(c.Src), ZI(c.Tgt), F(c.W), F(c.Sig))
}

func c15FmSolverTerm(s c15FmSolver) string {
	conns := make([]string, len(s.Conns))
	for i, c := range s.Conns {
		conns[i] = c15FmLinkTerm(c)
	}
	mods := make([]string, len(s.Mods))
	for i, m := range s.Mods {
		mods[i] = fmt.Sprintf("SM %s %s %s", ZI(m.Act), IList(m.Ins), IList(m.Outs))
	}
	return fmt.Sprintf("(SOLV %s %s %s %s %s %s %s %s %s %s)", ZI(s.Id), c15FmStr(s.Name), ZI(s.Bias), ZI(s.In), ZI(s.Out), ZI(s.Total),
		IList(s.Acts), FList(s.Biases), List(conns), List(mods))
}

func c15FmDocTerm(d c15FmDoc) string {
	names := make([]string, len(d.Acts))
	for i, a := range d.Acts {
		names[i] = c15FmStr(a)
	}
	conns := make([]string, len(d.Conns))
	for i, c := range d.Conns {
		conns[i] = Opt(!c.Null, "("+c15FmLinkTerm(c.L)+")")
	}
	mods := "None"
	if d.HasMods {
		it := make([]string, len(d.Mods))
		for i, m := range d.Mods {
			it[i] = fmt.Sprintf("DM %s %s %s", c15FmStr(m.Act), c15FmI64List(m.Ins), c15FmI64List(m.Outs))
		}
		mods = "(Some " + List(it) + ")"
	}
	return fmt.Sprintf("(DOC %s %s %s %s %s %s %s %s%%string %s %s %s)", Z(d.Id), c15FmStr(d.Name), Z(d.In), Z(d.Sensor), Z(d.Out), Z(d.Bias), Z(d.Total),
		List(names), FList(d.Biases), List(conns), mods)
}

// ---- running the real writer and reader ----

// c15FmWriteReal: code 1 = written, 301 MarshalerError, 302 UnsupportedValueError, 399 another error, -1 panic
func c15FmWriteReal(f *network.FastModularNetworkSolver) (text string, code int, msg string) {
	defer func() {
		if p := recover(); p != nil {
			text, code, msg = "", -1, fmt.Sprint(p)
		}
	}()
	var buf bytes.Buffer
	if err := f.WriteModel(&buf); err != nil {
		var me *json.MarshalerError
		var ue *json.UnsupportedValueError
		switch {
		case errors.As(err, &me):
			return "", 301, err.Error()
		case errors.As(err, &ue):
			return "", 302, err.Error()
		}
		return "", 399, err.Error()
	}
	return buf.String(), 1, ""
}

func c15FmWriteTerm(text string, code int) (term string, d c15FmDoc, shapeErr error) {
	switch {
	case code == 1:
		d, shapeErr = c15FmDecode(text, true)
		if shapeErr != nil {
			return "WPanic", d, shapeErr
		}
		return "(WOk " + c15FmDocTerm(d) + ")", d, nil
	case code < 0:
		return "WPanic", d, nil
	}
	return fmt.Sprintf("(WErr %d)", code), d, nil
}

// c15FmReadReal: code 1 = a solver, 100 = an error, 200+k = panic class k
func c15FmReadReal(text string) (f *network.FastModularNetworkSolver, code int, msg string) {
	defer func() {
		if p := recover(); p != nil {
			f, code, msg = nil, 200+c15FmPanicCode(p), fmt.Sprint(p)
		}
	}()
	back, err := network.ReadFMNSModel(strings.NewReader(text))
	if err != nil {
		return nil, 100, err.Error()
	}
	return back, 1, ""
}

func c15FmReadTerm(f *network.FastModularNetworkSolver, code int) string {
	switch {
	case code == 1:
		return "(ROk " + c15FmSolverTerm(c15FmObserve(f)) + ")"
	case code == 100:
		return "RErr"
	}
	return fmt.Sprintf("(RPanic %d)", code-200)
}

// c15FmRunOps performs ops on a real solver; returns what was observed (state after the last op)
func c15FmRunOps(s network.Solver, ops []c12Op) []c12Obs {
	obs := make([]c12Obs, 0, len(ops))
	for i, o := range ops {
		code := c12Apply(s, o)
		ob := c12Obs{Code: code, Outs: append([]float64{}, s.ReadOutputs()...)}
		if i == len(ops)-1 {
			ob.State = c12FastState(s)
		}
		obs = append(obs, ob)
	}
	return obs
}

func c15FmRunTerm(s c15FmSolver, ops []c12Op, obs []c12Obs) string {
	tb := make([]string, len(c12TableOrder))
	for i, e := range c12TableOrder {
		tb[i] = fmt.Sprintf("(%d, %s, %s)", e[0], F(math.Float64frombits(e[1])), F(math.Float64frombits(e[2])))
	}
	it := make([]string, len(obs))
	for j, ob := range obs {
		st := "None"
		if ob.State != "" {
			st = "(Some " + ob.State + ")"
		}
		it[j] = fmt.Sprintf("(%s, %d, %s, %s)", c12OpTerm(ops[j]), ob.Code, FList(ob.Outs), st)
	}
	return fmt.Sprintf("ObsRun %s %s %s", c15FmSolverTerm(s), List(tb), List(it))
}

func c15FmSameObs(a, b []c12Obs) (int, bool) {
	for i := range a {
		if a[i].Code != b[i].Code || len(a[i].Outs) != len(b[i].Outs) {
			return i, false
		}
		for k := range a[i].Outs {
			if c15FmBits(a[i].Outs[k]) != c15FmBits(b[i].Outs[k]) {
				return i, false
			}
		}
	}
	return 0, true
}

// ---- inputs ----

type c15FmInput struct {
	Kind   string       `json:"kind"` // fmns-net | fmns-solver | fmns-doc
	Family string       `json:"family"`
	Net    *c12Net      `json:"net,omitempty"`
	Id     int          `json:"id,omitempty"`
	Name   string       `json:"name,omitempty"`
	Ops    []c12Op      `json:"ops,omitempty"`
	Solver *c15FmSolver `json:"solver,omitempty"`
	Text   string       `json:"text,omitempty"`
}

type c15FmCtx struct {
	r  *Run
	cf *CaseFile
	id int
}

func (c *c15FmCtx) fail(key, what string, in c15FmInput, observed, required interface{}) {
	c.r.Fail(Failure{Key: key, What: what, Input: in, Observed: observed, Required: required})
}

func (c *c15FmCtx) emit(in c15FmInput, obs []string) {
	if c.cf != nil && len(obs) > 0 {
		c.cf.Add(fmt.Sprintf("{| fm_id := %d; fm_obss := %s |}", c.id, List(obs)))
		c.r.SaveInput(c.id, in)
	}
	c.id++
}

func c15FmFinite(s c15FmSolver) bool {
	for _, b := range s.Biases {
		if math.IsNaN(b) || math.IsInf(b, 0) {
			return false
		}
	}
	for _, l := range s.Conns {
		if math.IsNaN(l.W) || math.IsInf(l.W, 0) || math.IsNaN(l.Sig) || math.IsInf(l.Sig, 0) {
			return false
		}
	}
	return true
}

func c15FmRegistered(s c15FmSolver) bool {
	ok := func(a int) bool {
		if a < 0 || a > 255 {
			return false
		}
		_, err := c12Orig.ActivationNameFromType(neatmath.NodeActivationType(a))
		return err == nil
	}
	for _, a := range s.Acts {
		if !ok(a) {
			return false
		}
	}
	for _, m := range s.Mods {
		if !ok(m.Act) {
			return false
		}
	}
	return true
}

// roundTrip: the part shared by networks and directly constructed solvers. `fresh` builds another instance of the
// original (for the output comparison); ops == nil: no operations. Returns the observations and the written text.
func (c *c15FmCtx) roundTrip(in c15FmInput, fm *network.FastModularNetworkSolver, fresh func() *network.FastModularNetworkSolver, ops []c12Op, coqRun bool) (obs []string, text string) {
	r := c.r
	orig := c15FmObserve(fm)
	text, wcode, wmsg := c15FmWriteReal(fm)
	wterm, _, shapeErr := c15FmWriteTerm(text, wcode)
	if shapeErr != nil {
		c.fail("fmns-file document-shape", "WriteModel's output is not the documented JSON object", in, shapeErr.Error()+" in "+text, "the ten keys of fastModularNetworkSolverData (+ modules)")
		return nil, ""
	}
	obs = append(obs, fmt.Sprintf("ObsWrite %s %s", c15FmSolverTerm(orig), wterm))
	writable := c15FmFinite(orig) && c15FmRegistered(orig)
	switch {
	case wcode == 1 && !writable:
		c.fail("fmns-file write-accepts", "WriteModel wrote a solver holding a non-finite number or an unregistered activation type", in, text, "an error")
		return obs, ""
	case wcode != 1 && writable:
		c.fail("fmns-file write-error", "WriteModel failed on a solver with registered activation types and finite numbers", in, wmsg, "nil error")
		return obs, ""
	case wcode != 1:
		r.Hist("fmns-file", fmt.Sprintf("write refused (%d)", wcode))
		if wcode < 0 {
			c.fail("fmns-file write-panic", "WriteModel panicked", in, wmsg, "an error")
		}
		return obs, ""
	}
	doc, _ := c15FmDecode(text, true)
	back, rcode, rmsg := c15FmReadReal(text)
	obs = append(obs, fmt.Sprintf("ObsRead %s %s", c15FmDocTerm(doc), c15FmReadTerm(back, rcode)))
	if rcode != 1 {
		c.fail("fmns-file read-error", "ReadFMNSModel rejects what WriteModel wrote", in, rmsg, "a solver")
		return obs, text
	}
	rest := c15FmObserve(back)
	if d := c15FmDiff(orig, rest); d != "" {
		ro, oo := c15FmClone(rest), c15FmClone(orig)
		ro.toStrings()
		oo.toStrings()
		c.fail("fmns-file static "+d, "the solver restored from the model file differs from the original: "+d, in, ro, oo)
		return obs, text
	}
	// written again, the restored solver gives the same text
	if text2, code2, _ := c15FmWriteReal(back); code2 != 1 || text2 != text {
		c.fail("fmns-file rewrite", "the model file written by the restored solver differs from the original model file", in, text2, text)
		return obs, text
	}
	if ops != nil {
		c12ResetTable()
		a := c15FmRunOps(fresh(), ops)
		b := c15FmRunOps(back, ops)
		if i, same := c15FmSameObs(a, b); !same {
			c.fail(fmt.Sprintf("fmns-file outputs op=%d", ops[i].Kind), "the solver restored from the model file computes different results or outputs", in,
				map[string]interface{}{"op": i, "code": b[i].Code, "outputs": fmt.Sprint(b[i].Outs)},
				map[string]interface{}{"op": i, "code": a[i].Code, "outputs": fmt.Sprint(a[i].Outs)})
			return obs, text
		}
		if coqRun {
			obs = append(obs, c15FmRunTerm(rest, ops, b))
		}
		r.Hist("fmns-file", "round trip with outputs compared")
	} else {
		r.Hist("fmns-file", "round trip, static only")
	}
	return obs, text
}

// ---- family 1: networks ----

var c15FmEdgy = []float64{5e-324, -2.2250738585072014e-308, 1e22, -1e22, math.Copysign(0, -1), 0, 1.7976931348623157e308, -1.7976931348623157e308,
	0.1, 1.0 / 3, 123456789.125, -1e-7, 1e21, 1e-320}

func c15FmName(rng *rand.Rand) string {
	switch rng.Intn(6) {
	case 0:
		return ""
	case 1:
		return "XOR"
	}
	const special = "\"\\<>&/ '{}[]:,"
	n := 1 + rng.Intn(10)
	b := make([]byte, n)
	for i := range b {
		if rng.Intn(4) == 0 {
			b[i] = special[rng.Intn(len(special))]
		} else {
			b[i] = byte(0x20 + rng.Intn(0x5f))
		}
	}
	return string(b)
}

func c15FmId(rng *rand.Rand) int {
	return []int{0, 1, 7, -3, rng.Intn(100000), 1 << 40, math.MaxInt64, math.MinInt64}[rng.Intn(8)]
}

func c15FmGenNet(rng *rand.Rand, i int) (c12Net, string) {
	var n c12Net
	fam := ""
	if i%2 == 0 {
		g, f := c12RandomGen(rng, i/2)
		n, fam = c12GenDAG(rng, g), "dag/"+f
	} else {
		fams := []string{"random", "self-loop", "2-cycle", "3-cycle", "into-sensors", "feed-forward-ish"}
		f := fams[(i/2)%len(fams)]
		g := c13Gen{nIn: 1 + rng.Intn(3), nBias: rng.Intn(3), nHid: rng.Intn(6), nOut: 1 + rng.Intn(2),
			pEdge: 0.15 + 0.3*rng.Float64(), family: f, shuffle: rng.Intn(2) == 0}
		switch f {
		case "into-sensors":
			g.intoSensors = true
		case "3-cycle":
			if g.nHid < 2 {
				g.nHid = 2
			}
		case "feed-forward-ish":
			g.pEdge = 0.12
		}
		n, fam = c13GenGraph(rng, g), "graph/"+f
	}
	if i%3 == 0 {
		// boundary weights
		for p := range n.Nodes {
			for l := range n.Nodes[p].In {
				if rng.Intn(3) == 0 {
					n.Nodes[p].In[l].W = c15FmEdgy[rng.Intn(len(c15FmEdgy))]
				}
			}
		}
		fam += "+edgy-weights"
	}
	return n, fam
}

func c15FmBuildNet(in c15FmInput) (*network.FastModularNetworkSolver, int) {
	net, _ := c12Build(*in.Net)
	net.Id, net.Name = in.Id, in.Name
	s, code := c12FastBuild(net)
	if s == nil {
		return nil, code
	}
	return s.(*network.FastModularNetworkSolver), 1
}

func (c *c15FmCtx) oneNet(in c15FmInput) (string, *c15FmSolver) {
	r := c.r
	fm, code := c15FmBuildNet(in)
	if fm == nil {
		r.Hist("fmns-file", fmt.Sprintf("FastNetworkSolver failed (%d)", code))
		c.emit(in, nil)
		return "", nil
	}
	orig := c15FmObserve(fm)
	nodes, ins, outs := c12NetTerm(*in.Net)
	obs := []string{fmt.Sprintf("NET %s %s %s %s %s %s", nodes, ins, outs, ZI(in.Id), c15FmStr(in.Name), c15FmSolverTerm(orig))}
	more, text := c.roundTrip(in, fm, func() *network.FastModularNetworkSolver { f, _ := c15FmBuildNet(in); return f }, in.Ops, true)
	obs = append(obs, more...)
	nontrivial := false
	for _, l := range orig.Conns {
		if l.W != math.Trunc(l.W) {
			nontrivial = true
		}
	}
	b, _ := json.Marshal(in.Net)
	r.Count("fmns-net|"+string(b)+in.Name, nontrivial)
	r.Hist("fmns-file family", in.Family)
	r.Hist("fmns-file neurons", bucket(orig.Total))
	c.emit(in, obs)
	return text, &orig
}

// ---- family 2: solvers constructed directly ----

func c15FmOddSolver(rng *rand.Rand, base c15FmSolver) (c15FmSolver, string, bool) {
	s := c15FmClone(base)
	s.Id, s.Name = c15FmId(rng), c15FmName(rng)
	runnable := true // Fast.v's solver steps apply (no modules, consistent counts)
	pickIdx := func(k int) []int {
		out := make([]int, k)
		for i := range out {
			out[i] = rng.Intn(s.Total)
		}
		return out
	}
	nonfinite := []float64{math.NaN(), math.Inf(1), math.Inf(-1)}
	kind := ""
	switch k := rng.Intn(16); k {
	case 0, 1:
		kind = "modules"
		for m := 0; m <= rng.Intn(3); m++ {
			s.Mods = append(s.Mods, c15FmMod{Act: 21 + rng.Intn(3), Ins: pickIdx(1 + rng.Intn(3)), Outs: pickIdx(1 + rng.Intn(2))})
		}
		runnable = false
	case 2:
		kind = "module with a scalar activation type / empty index lists"
		s.Mods = append(s.Mods, c15FmMod{Act: 1 + rng.Intn(20), Ins: []int{}, Outs: pickIdx(1)}, c15FmMod{Act: 22, Ins: pickIdx(2), Outs: []int{}})
		runnable = false
	case 3:
		kind = "signals set"
		for i := range s.Conns {
			s.Conns[i].Sig = c15FmEdgy[rng.Intn(len(c15FmEdgy))]
		}
	case 4:
		kind = "unregistered activation type"
		if len(s.Acts) > 0 {
			s.Acts[rng.Intn(len(s.Acts))] = []int{0, 24, 255, 100}[rng.Intn(4)]
		}
	case 5:
		kind = "unregistered module activation type"
		s.Mods = append(s.Mods, c15FmMod{Act: 21, Ins: pickIdx(2), Outs: pickIdx(1)}, c15FmMod{Act: []int{0, 24, 200}[rng.Intn(3)], Ins: pickIdx(2), Outs: pickIdx(1)})
		runnable = false
	case 6:
		kind = "non-finite bias"
		if len(s.Biases) > 0 {
			s.Biases[rng.Intn(len(s.Biases))] = nonfinite[rng.Intn(3)]
		}
	case 7:
		kind = "non-finite weight or signal"
		if len(s.Conns) > 0 {
			i := rng.Intn(len(s.Conns))
			if rng.Intn(2) == 0 {
				s.Conns[i].W = nonfinite[rng.Intn(3)]
			} else {
				s.Conns[i].Sig = nonfinite[rng.Intn(3)]
			}
		}
	case 8:
		kind = "unregistered type and non-finite number"
		if len(s.Acts) > 0 && len(s.Biases) > 0 {
			s.Acts[len(s.Acts)-1] = 0
			s.Biases[0] = math.NaN()
		}
	case 9:
		kind = "non-finite number and unregistered module type"
		if len(s.Conns) > 0 {
			s.Conns[len(s.Conns)-1].W = math.Inf(1)
		}
		s.Mods = append(s.Mods, c15FmMod{Act: 77, Ins: pickIdx(1), Outs: pickIdx(1)})
		runnable = false
	case 10:
		kind = "activation list shorter / longer than the neuron count"
		if rng.Intn(2) == 0 && len(s.Acts) > 0 {
			s.Acts = s.Acts[:len(s.Acts)-1]
		} else {
			s.Acts = append(s.Acts, 1+rng.Intn(20))
		}
		runnable = false
	case 11:
		kind = "bias list shorter / longer than the neuron count"
		if rng.Intn(2) == 0 && len(s.Biases) > 0 {
			s.Biases = s.Biases[:len(s.Biases)-1]
		} else {
			s.Biases = append(s.Biases, 0.5)
		}
		runnable = false
	case 12:
		kind = "counts that do not add up"
		switch rng.Intn(4) {
		case 0:
			s.Out = s.Total + 1
		case 1:
			s.In = -2
		case 2:
			s.Out = -1
		default:
			s.Bias = -1
		}
		runnable = false
	case 13:
		kind = "empty solver"
		s = c15FmSolver{Id: s.Id, Name: s.Name, Acts: []int{}, Biases: []float64{}, NilMods: rng.Intn(2) == 0}
	case 14:
		kind = "input and output counts differ, nil module slice"
		s.NilMods = true
	default:
		kind = "renamed only"
	}
	return s, kind, runnable
}

func (c *c15FmCtx) oneSolver(in c15FmInput, runnable bool) {
	r := c.r
	s := *in.Solver
	fm, pc := c15FmConstruct(s)
	if fm == nil {
		r.Hist("fmns-file", fmt.Sprintf("constructor panicked (%d)", pc))
		c.emit(in, nil)
		return
	}
	ops := in.Ops
	if !runnable && len(s.Mods) == 0 {
		ops = nil // inconsistent counts: the steps would index out of range
	}
	// with modules the Go-side oracle still compares outputs of ForwardSteps / Relax; the Coq model has no modules
	obs, _ := c.roundTrip(in, fm, func() *network.FastModularNetworkSolver { f, _ := c15FmConstruct(s); return f }, ops, runnable)
	b, _ := json.Marshal(s)
	r.Count("fmns-solver|"+string(b), true)
	r.Hist("fmns-file solver", in.Family)
	c.emit(in, obs)
}

// ---- family 3: documents ----

func c15FmOddDoc(rng *rand.Rand, base c15FmDoc) (c15FmDoc, string, bool) {
	d := base
	d.Acts = append([]string{}, base.Acts...)
	d.Biases = append([]float64{}, base.Biases...)
	d.Conns = append([]c15FmDocLink{}, base.Conns...)
	d.Mods = append([]c15FmDocMod{}, base.Mods...)
	d.Absent = map[string]bool{}
	unknown := false // a name the registry does not know: the reader must refuse
	badName := func() string {
		return []string{"NoSuchActivation", "", "sigmoidplainactivation", "TanhActivation ", "SigmoidPlain", "null"}[rng.Intn(6)]
	}
	someMods := func() {
		d.HasMods = true
		d.Mods = append(d.Mods, c15FmDocMod{Act: []string{"MultiplyModuleActivation", "MaxModuleActivation", "MinModuleActivation", "TanhActivation"}[rng.Intn(4)],
			Ins: []int64{0, int64(rng.Intn(5))}, Outs: []int64{int64(rng.Intn(5))}})
	}
	kind := ""
	switch k := rng.Intn(24); k {
	case 0, 1:
		kind = "unknown activation name"
		if len(d.Acts) > 0 {
			d.Acts[rng.Intn(len(d.Acts))] = badName()
			unknown = true
		}
	case 2:
		kind = "unknown module activation name"
		someMods()
		d.Mods = append(d.Mods, c15FmDocMod{Act: badName(), Ins: []int64{0}, Outs: []int64{1}})
		unknown = true
	case 3:
		kind = "negative total"
		d.Total = -1 - int64(rng.Intn(3))
	case 4:
		kind = "more bias neurons than neurons"
		d.Bias = d.Total + 1 + int64(rng.Intn(2))
	case 5:
		kind = "total smaller than the connection indices"
		d.Total = d.Total / 2
	case 6, 7:
		kind = "connection index out of range"
		if len(d.Conns) > 0 {
			i := rng.Intn(len(d.Conns))
			v := []int{int(d.Total), -1, int(d.Total) + 5}[rng.Intn(3)]
			if rng.Intn(2) == 0 {
				d.Conns[i].L.Src = v
			} else {
				d.Conns[i].L.Tgt = v
			}
		}
	case 8:
		kind = "null connection"
		i := rng.Intn(len(d.Conns) + 1)
		d.Conns = append(d.Conns[:i:i], append([]c15FmDocLink{{Null: true}}, d.Conns[i:]...)...)
	case 9:
		kind = "null connection and an index out of range"
		if len(d.Conns) > 0 {
			d.Conns[rng.Intn(len(d.Conns))].L.Tgt = int(d.Total)
		}
		i := rng.Intn(len(d.Conns) + 1)
		d.Conns = append(d.Conns[:i:i], append([]c15FmDocLink{{Null: true}}, d.Conns[i:]...)...)
	case 10:
		kind = "unknown name and negative total"
		d.Total = -1
		if len(d.Acts) > 0 {
			d.Acts[rng.Intn(len(d.Acts))] = badName()
			unknown = true
		}
	case 11:
		kind = "activation list shorter / longer"
		if rng.Intn(2) == 0 && len(d.Acts) > 0 {
			d.Acts = d.Acts[:len(d.Acts)-1]
		} else {
			d.Acts = append(d.Acts, "NullActivation")
		}
	case 12:
		kind = "bias list shorter / longer / absent"
		switch rng.Intn(3) {
		case 0:
			if len(d.Biases) > 0 {
				d.Biases = d.Biases[:len(d.Biases)-1]
			}
		case 1:
			d.Biases = append(d.Biases, -0.25)
		default:
			d.Absent["bias_list"] = true
			d.Biases = nil
		}
	case 13:
		kind = "sensor count wrong"
		d.Sensor = d.Sensor + 1 + int64(rng.Intn(3))
	case 14:
		kind = "input and output counts swapped"
		d.In, d.Out = d.Out, d.In
	case 15:
		kind = "modules present and empty"
		d.HasMods, d.Mods = true, nil
	case 16:
		kind = "modules"
		someMods()
		if rng.Intn(2) == 0 {
			someMods()
		}
	case 17:
		kind = "name / id absent or changed"
		if rng.Intn(2) == 0 {
			d.Absent["name"] = true
			d.Name = ""
		} else {
			d.Name, d.Id = c15FmName(rng), int64(c15FmId(rng))
		}
	case 18:
		kind = "connections absent"
		d.Absent["connections"] = true
		d.Conns = nil
	case 19:
		kind = "negative input / output / bias count"
		switch rng.Intn(3) {
		case 0:
			d.In = -1
		case 1:
			d.Out = -2
		default:
			d.Bias = -1
		}
	case 20:
		kind = "boundary numbers"
		for i := range d.Biases {
			d.Biases[i] = c15FmEdgy[rng.Intn(len(c15FmEdgy))]
		}
		for i := range d.Conns {
			d.Conns[i].L.W, d.Conns[i].L.Sig = c15FmEdgy[rng.Intn(len(c15FmEdgy))], c15FmEdgy[rng.Intn(len(c15FmEdgy))]
		}
	case 21:
		kind = "zero neurons"
		d.Total, d.Bias, d.In, d.Out, d.Sensor = 0, 0, 0, 0, 0
		d.Acts, d.Biases, d.Conns = nil, nil, nil
	default:
		kind = "unchanged"
	}
	return d, kind, unknown
}

func (c *c15FmCtx) oneDoc(in c15FmInput, unknown *bool) {
	r := c.r
	doc, err := c15FmDecode(in.Text, false)
	if err != nil {
		r.Hist("fmns-file", "document outside the typed model: "+err.Error())
		c.emit(in, nil)
		return
	}
	back, rcode, rmsg := c15FmReadReal(in.Text)
	obs := []string{fmt.Sprintf("ObsRead %s %s", c15FmDocTerm(doc), c15FmReadTerm(back, rcode))}
	// Go-side oracle: a name the registry does not know must be refused
	isUnknown := false
	if unknown != nil {
		isUnknown = *unknown // the generator put a name there that no registry knows
	} else {
		names := append([]string{}, doc.Acts...)
		for _, m := range doc.Mods {
			names = append(names, m.Act)
		}
		for _, n := range names {
			if _, e := c12Orig.ActivationTypeFromName(n); e != nil {
				isUnknown = true
			}
		}
	}
	if isUnknown && rcode != 100 {
		c.fail("fmns-file read-accepts-unknown-name", "ReadFMNSModel did not refuse a document naming an unknown activation function", in, fmt.Sprint(rcode, " ", rmsg), "an error")
	}
	switch {
	case rcode == 1:
		r.Hist("fmns-file doc", "read: solver")
		// what the restored solver writes: the document again, up to the derived sensor count and an empty module list
		rest := c15FmObserve(back)
		text2, wcode, _ := c15FmWriteReal(back)
		if wterm, _, shapeErr := c15FmWriteTerm(text2, wcode); shapeErr == nil {
			obs = append(obs, fmt.Sprintf("ObsWrite %s %s", c15FmSolverTerm(rest), wterm))
		}
		if wcode == 1 {
			if b2, c2, _ := c15FmReadReal(text2); c2 != 1 || c15FmDiff(rest, c15FmObserve(b2)) != "" {
				c.fail("fmns-file static reread", "a solver read from a model file, written and read again, is not the same solver", in, text2, in.Text)
			}
		}
	case rcode == 100:
		r.Hist("fmns-file doc", "read: error")
	default:
		r.Hist("fmns-file doc", fmt.Sprintf("read: panic class %d", rcode-200))
	}
	r.Count("fmns-doc|"+in.Text, true)
	r.Hist("fmns-file document", in.Family)
	c.emit(in, obs)
}

// ---- runner ----

func c15FmnsCases(r *Run) {
	quiet()
	c12InstallRecorder()
	defer func() { c12Table = nil }()
	rng := rand.New(rand.NewSource(r.Rng.Int63()))
	c := &c15FmCtx{r: r, id: 1000000}
	shard, inShard := 300, 0
	const imports = "Res Net Fast C12Cases Fmns FmnsCases"
	c.cf = r.NewCaseFile(shard, imports, "fmns_case")
	next := func() {
		inShard++
		if inShard >= 100 {
			c.cf.Close("fmns_mismatches")
			shard++
			inShard = 0
			c.cf = r.NewCaseFile(shard, imports, "fmns_case")
		}
	}
	var texts []string
	var solvers []c15FmSolver
	nNets := r.N(160, 1600)
	for i := 0; i < nNets; i++ {
		n, fam := c15FmGenNet(rng, i)
		ops := []c12Op{{Kind: c12Load, X: c12RandVec(rng, c12CountRole(n, 1))}}
		ops = append(ops, c13RandOps(rng, n, 1, 1+rng.Intn(6), true)...)
		in := c15FmInput{Kind: "fmns-net", Family: fam, Net: &n, Id: c15FmId(rng), Name: c15FmName(rng), Ops: ops}
		text, s := c.oneNet(in)
		if text != "" {
			texts = append(texts, text)
			solvers = append(solvers, *s)
		}
		next()
	}
	if len(texts) == 0 {
		c.cf.Close("fmns_mismatches")
		r.Fail(Failure{Key: "fmns-file no-model-file", What: "no network gave a model file that reads back", Input: map[string]interface{}{"kind": "fmns-net"}})
		return
	}
	for i := 0; i < r.N(80, 800); i++ {
		base := solvers[rng.Intn(len(solvers))]
		s, kind, runnable := c15FmOddSolver(rng, base)
		s.toStrings()
		nIn := s.In
		if nIn < 0 {
			nIn = 0
		}
		ops := []c12Op{{Kind: c12Load, X: c12RandVec(rng, nIn)}, {Kind: c12Forward, K: 1 + rng.Intn(3)}, {Kind: c12Relax, K: 1 + rng.Intn(3), Delta: []float64{0, 0.01}[rng.Intn(2)]}}
		if len(s.Mods) == 0 {
			ops = append(ops, c12Op{Kind: c12Recursive})
		}
		c.oneSolver(c15FmInput{Kind: "fmns-solver", Family: kind, Solver: &s, Ops: ops}, runnable)
		next()
	}
	for i := 0; i < r.N(160, 1600); i++ {
		base, err := c15FmDecode(texts[rng.Intn(len(texts))], true)
		if err != nil {
			continue
		}
		d, kind, unknown := c15FmOddDoc(rng, base)
		c.oneDoc(c15FmInput{Kind: "fmns-doc", Family: kind, Text: c15FmRender(d)}, &unknown)
		next()
	}
	c.cf.Close("fmns_mismatches")
	r.Note("fast-solver model file: JSON number and string formatting is encoding/json's (outside the Coq model); the harness decodes WriteModel's text generically " +
		"(json.Number -> strconv) and compares every float bit for bit; module semantics of the solver steps are outside Fast.v: solvers with modules are compared " +
		"statically by the model and by outputs on the Go side only")
}

// c15FmnsReplay re-runs one input of this file under the Go-side oracle (kinds fmns-net, fmns-solver, fmns-doc)
func c15FmnsReplay(r *Run, input []byte) error {
	quiet()
	c12InstallRecorder()
	defer func() { c12Table = nil }()
	var in c15FmInput
	if err := json.Unmarshal(input, &in); err != nil {
		return err
	}
	c := &c15FmCtx{r: r}
	switch in.Kind {
	case "fmns-net":
		if in.Net == nil {
			return fmt.Errorf("fmns-net replay without a network")
		}
		c.oneNet(in)
	case "fmns-solver":
		if in.Solver == nil {
			return fmt.Errorf("fmns-solver replay without a solver")
		}
		in.Solver.fromStrings()
		c.oneSolver(in, false)
	case "fmns-doc":
		c.oneDoc(in, nil)
	default:
		return fmt.Errorf("unknown fmns replay kind %q", in.Kind)
	}
	return nil
}
