package main

import (
	"bytes"
	"encoding/json"
	"fmt"
	"math"
	"math/rand"
	"os"
	"path/filepath"
	"sort"
	"strconv"
	"strings"
	"time"

	"github.com/yaricom/goNEAT/v4/experiment"
	"github.com/yaricom/goNEAT/v4/neat"
	"github.com/yaricom/goNEAT/v4/neat/genetics"
	neatmath "github.com/yaricom/goNEAT/v4/neat/math"
	"github.com/yaricom/goNEAT/v4/neat/network"
	"gopkg.in/yaml.v3"
)

// C15: everything the library writes it reads back unchanged.
//
// Correspondence (Coq model coq/model/Plain.v, both directions separately): plain genome writer and
// reader, organism binary form, population stream writer and reader, on token lines.
// Go-side oracle (independent of the model), end to end: plain, YAML, organism binary, population
// (Population.Write, Genome.Write one after another, WriteBySpecies), FMNS model file, experiment gob.

func init() {
	runners["C15"] = runC15
	replayers["C15"] = replayC15
}

// ---------- a structural JSON form of a genome (replay files; also builds ill-formed genomes) ----------

type c15T struct {
	Id     int      `json:"id"`
	Params []string `json:"params"`
}
type c15N struct {
	Id    int  `json:"id"`
	Type  int  `json:"type"`
	Act   int  `json:"act"`
	Trait *int `json:"trait"` // nil: no trait; otherwise the id of the referenced trait
}
type c15G struct {
	In    int    `json:"in"`
	Out   int    `json:"out"`
	Rec   bool   `json:"rec"`
	W     string `json:"w"`
	Trait *int   `json:"trait"`
	Innov int64  `json:"innov"`
	Mut   string `json:"mut"`
	En    bool   `json:"en"`
}
type c15L struct {
	Id int    `json:"id"`
	W  string `json:"w"`
}
type c15M struct {
	Node  c15N   `json:"node"`
	Innov int64  `json:"innov"`
	Mut   string `json:"mut"`
	En    bool   `json:"en"`
	Ins   []c15L `json:"ins"`
	Outs  []c15L `json:"outs"`
}
type c15Genome struct {
	Id     int    `json:"id"`
	Traits []c15T `json:"traits"`
	Nodes  []c15N `json:"nodes"`
	Genes  []c15G `json:"genes"`
	Mods   []c15M `json:"modules,omitempty"`
}

func c15fs(x float64) string {
	switch {
	case math.IsNaN(x):
		return "NaN"
	case math.IsInf(x, 1):
		return "+Inf"
	case math.IsInf(x, -1):
		return "-Inf"
	}
	return strconv.FormatFloat(x, 'x', -1, 64)
}
func c15pf(s string) float64 {
	x, err := strconv.ParseFloat(s, 64)
	if err != nil {
		panic("bad float in replay input: " + s)
	}
	return x
}
func c15tr(t *neat.Trait) *int {
	if t == nil {
		return nil
	}
	id := t.Id
	return &id
}

func c15Capture(g *genetics.Genome) c15Genome {
	j := c15Genome{Id: g.Id}
	for _, t := range g.Traits {
		ps := make([]string, len(t.Params))
		for i, p := range t.Params {
			ps[i] = c15fs(p)
		}
		j.Traits = append(j.Traits, c15T{t.Id, ps})
	}
	node := func(n *network.NNode) c15N {
		return c15N{n.Id, int(n.NeuronType), int(n.ActivationType), c15tr(n.Trait)}
	}
	nid := func(n *network.NNode) int {
		if n == nil {
			return -999999
		}
		return n.Id
	}
	for _, n := range g.Nodes {
		j.Nodes = append(j.Nodes, node(n))
	}
	for _, x := range g.Genes {
		j.Genes = append(j.Genes, c15G{nid(x.Link.InNode), nid(x.Link.OutNode), x.Link.IsRecurrent, c15fs(x.Link.ConnectionWeight),
			c15tr(x.Link.Trait), x.InnovationNum, c15fs(x.MutationNum), x.IsEnabled})
	}
	for _, m := range g.ControlGenes {
		jm := c15M{Node: node(m.ControlNode), Innov: m.InnovationNum, Mut: c15fs(m.MutationNum), En: m.IsEnabled}
		for _, l := range m.ControlNode.Incoming {
			jm.Ins = append(jm.Ins, c15L{nid(l.InNode), c15fs(l.ConnectionWeight)})
		}
		for _, l := range m.ControlNode.Outgoing {
			jm.Outs = append(jm.Outs, c15L{nid(l.OutNode), c15fs(l.ConnectionWeight)})
		}
		j.Mods = append(j.Mods, jm)
	}
	return j
}

// c15Build makes a real genome; references are resolved by id to the first match, an id that names
// nothing becomes a foreign object (a trait / node that is not in the genome's lists)
func c15Build(j c15Genome) *genetics.Genome {
	traits := make([]*neat.Trait, 0, len(j.Traits))
	for _, t := range j.Traits {
		tr := neat.NewTrait()
		tr.Id = t.Id
		tr.Params = make([]float64, len(t.Params))
		for i, p := range t.Params {
			tr.Params[i] = c15pf(p)
		}
		traits = append(traits, tr)
	}
	trait := func(id *int) *neat.Trait {
		if id == nil {
			return nil
		}
		for _, t := range traits {
			if t.Id == *id {
				return t
			}
		}
		f := neat.NewTrait()
		f.Id = *id
		return f
	}
	nodes := make([]*network.NNode, 0, len(j.Nodes))
	mk := func(n c15N) *network.NNode {
		nd := network.NewNNode(n.Id, network.NodeNeuronType(n.Type))
		nd.ActivationType = neatmath.NodeActivationType(n.Act)
		nd.Trait = trait(n.Trait)
		return nd
	}
	for _, n := range j.Nodes {
		nodes = append(nodes, mk(n))
	}
	node := func(id int) *network.NNode {
		for _, n := range nodes {
			if n.Id == id {
				return n
			}
		}
		return network.NewNNode(id, network.HiddenNeuron)
	}
	genes := make([]*genetics.Gene, 0, len(j.Genes))
	for _, x := range j.Genes {
		var l *network.Link
		if t := trait(x.Trait); t != nil {
			l = network.NewLinkWithTrait(t, c15pf(x.W), node(x.In), node(x.Out), x.Rec)
		} else {
			l = network.NewLink(c15pf(x.W), node(x.In), node(x.Out), x.Rec)
		}
		genes = append(genes, genetics.NewConnectionGene(l, x.Innov, c15pf(x.Mut), x.En))
	}
	if len(j.Mods) == 0 {
		return genetics.NewGenome(j.Id, traits, nodes, genes)
	}
	mods := make([]*genetics.MIMOControlGene, 0, len(j.Mods))
	for _, m := range j.Mods {
		c := mk(m.Node)
		for _, l := range m.Ins {
			c.AddIncoming(node(l.Id), c15pf(l.W))
		}
		for _, l := range m.Outs {
			c.AddOutgoing(node(l.Id), c15pf(l.W))
		}
		mods = append(mods, genetics.NewMIMOGene(c, m.Innov, c15pf(m.Mut), m.En))
	}
	return genetics.NewModularGenome(j.Id, traits, nodes, genes, mods)
}

// c15Diff is the statement "b is genetically the same genome as a": first difference or "".
// exact: floats by bits (all NaNs alike); otherwise numerically (-0 == 0). withMods: compare modules too.
func c15Diff(a, b c15Genome, exact, withMods bool) string {
	feq := func(x, y string) bool {
		p, q := c15pf(x), c15pf(y)
		if math.IsNaN(p) || math.IsNaN(q) {
			return math.IsNaN(p) && math.IsNaN(q)
		}
		if exact {
			return math.Float64bits(p) == math.Float64bits(q)
		}
		return p == q
	}
	ieq := func(x, y *int) bool { return (x == nil) == (y == nil) && (x == nil || *x == *y) }
	if a.Id != b.Id {
		return fmt.Sprintf("genome id %d != %d", a.Id, b.Id)
	}
	if len(a.Traits) != len(b.Traits) || len(a.Nodes) != len(b.Nodes) || len(a.Genes) != len(b.Genes) {
		return fmt.Sprintf("counts traits/nodes/genes %d/%d/%d != %d/%d/%d", len(a.Traits), len(a.Nodes), len(a.Genes), len(b.Traits), len(b.Nodes), len(b.Genes))
	}
	for i := range a.Traits {
		if a.Traits[i].Id != b.Traits[i].Id || len(a.Traits[i].Params) != len(b.Traits[i].Params) {
			return fmt.Sprintf("trait %d id/param count", i)
		}
		for k := range a.Traits[i].Params {
			if !feq(a.Traits[i].Params[k], b.Traits[i].Params[k]) {
				return fmt.Sprintf("trait %d param %d: %s != %s", a.Traits[i].Id, k, a.Traits[i].Params[k], b.Traits[i].Params[k])
			}
		}
	}
	neq := func(x, y c15N) bool {
		return x.Id == y.Id && x.Type == y.Type && x.Act == y.Act && ieq(x.Trait, y.Trait)
	}
	for i := range a.Nodes {
		if !neq(a.Nodes[i], b.Nodes[i]) {
			return fmt.Sprintf("node #%d: %s != %s", i, c15JSON(a.Nodes[i]), c15JSON(b.Nodes[i]))
		}
	}
	for i := range a.Genes {
		x, y := a.Genes[i], b.Genes[i]
		if x.In != y.In || x.Out != y.Out || x.Rec != y.Rec || !feq(x.W, y.W) || !ieq(x.Trait, y.Trait) || x.Innov != y.Innov || !feq(x.Mut, y.Mut) || x.En != y.En {
			return fmt.Sprintf("gene #%d: %s != %s", i, c15JSON(x), c15JSON(y))
		}
	}
	if withMods {
		if len(a.Mods) != len(b.Mods) {
			return fmt.Sprintf("module count %d != %d", len(a.Mods), len(b.Mods))
		}
		for i := range a.Mods {
			x, y := a.Mods[i], b.Mods[i]
			if !neq(x.Node, y.Node) || x.Innov != y.Innov || !feq(x.Mut, y.Mut) || x.En != y.En || len(x.Ins) != len(y.Ins) || len(x.Outs) != len(y.Outs) {
				return fmt.Sprintf("module #%d header", i)
			}
			for k := range x.Ins {
				if x.Ins[k].Id != y.Ins[k].Id || !feq(x.Ins[k].W, y.Ins[k].W) {
					return fmt.Sprintf("module #%d input %d", i, k)
				}
			}
			for k := range x.Outs {
				if x.Outs[k].Id != y.Outs[k].Id || !feq(x.Outs[k].W, y.Outs[k].W) {
					return fmt.Sprintf("module #%d output %d", i, k)
				}
			}
		}
	}
	return ""
}

// ---------- tokens ----------

type c15Tok struct {
	K byte // i f b w
	I int64
	F float64
	B bool
	S string
}

func c15Lex(field string) c15Tok {
	if v, err := strconv.ParseInt(field, 10, 64); err == nil && strconv.FormatInt(v, 10) == field {
		return c15Tok{K: 'i', I: v}
	}
	if field == "true" || field == "false" {
		return c15Tok{K: 'b', B: field == "true"}
	}
	if v, err := strconv.ParseFloat(field, 64); err == nil {
		return c15Tok{K: 'f', F: v}
	}
	return c15Tok{K: 'w', S: field}
}

// c15Tokenise splits a text the way bufio.ScanLines and strings.Split(line, " ") do
func c15Tokenise(text string) [][]c15Tok {
	if text == "" {
		return nil
	}
	lines := strings.Split(text, "\n")
	if lines[len(lines)-1] == "" {
		lines = lines[:len(lines)-1]
	}
	out := make([][]c15Tok, len(lines))
	for i, l := range lines {
		l = strings.TrimSuffix(l, "\r")
		for _, f := range strings.Split(l, " ") {
			out[i] = append(out[i], c15Lex(f))
		}
	}
	return out
}

func c15Str(s string) string { return "\"" + strings.ReplaceAll(s, "\"", "\"\"") + "\"" }

func (t c15Tok) coq() string {
	switch t.K {
	case 'i':
		return "TI " + Z(t.I)
	case 'f':
		x := F(t.F)
		if !strings.HasPrefix(x, "(") && strings.ContainsAny(x, " ") {
			x = "(" + x + ")"
		}
		return "TF " + x
	case 'b':
		return "TB " + B(t.B)
	}
	return "TW " + c15Str(t.S)
}

func c15Lines(ls [][]c15Tok) string {
	rows := make([]string, len(ls))
	for i, l := range ls {
		it := make([]string, len(l))
		for k, t := range l {
			it[k] = t.coq()
		}
		rows[i] = List(it)
	}
	return List(rows)
}

var c15RegTerm string

// c15Registry renders the forward activation map; also checks that names and codes are in bijection
func c15Registry(r *Run) string {
	var it []string
	for c := 0; c < 128; c++ {
		name, err := neatmath.NodeActivators.ActivationNameFromType(neatmath.NodeActivationType(c))
		if err != nil {
			continue
		}
		it = append(it, fmt.Sprintf("RE %d %s", c, c15Str(name)))
		back, err := neatmath.NodeActivators.ActivationTypeFromName(name)
		if (err != nil || int(back) != c) && r != nil {
			r.Fail(Failure{Key: "registry-not-bijective " + name, What: "activation name does not map back to its type",
				Input: map[string]interface{}{"kind": "registry", "code": c, "name": name}, Observed: fmt.Sprint(back, err), Required: c})
		}
	}
	return List(it)
}

// ---------- Gallina rendering of reader results ----------

func c15OptId(n *network.NNode) string {
	if n == nil {
		return "None"
	}
	return "(Some " + ZI(n.Id) + ")"
}

func c15RGenome(g *genetics.Genome) string {
	var ts, ns, gs []string
	for _, t := range g.Traits {
		ts = append(ts, fmt.Sprintf("(T %s %s)", ZI(t.Id), FList(t.Params)))
	}
	for _, n := range g.Nodes {
		ns = append(ns, coqNode(n))
	}
	for _, x := range g.Genes {
		gs = append(gs, fmt.Sprintf("(RG %s %s %s %s %s %s %s %s)", c15OptId(x.Link.InNode), c15OptId(x.Link.OutNode),
			B(x.Link.IsRecurrent), F(x.Link.ConnectionWeight), traitRef(x.Link.Trait), Z(x.InnovationNum), F(x.MutationNum), B(x.IsEnabled)))
	}
	return fmt.Sprintf("(RGN %s %s %s %s)", ZI(g.Id), List(ts), List(ns), List(gs))
}

// ---------- the real code, guarded ----------

func c15Guard(f func() error) (err error, panicked bool) {
	defer func() {
		if p := recover(); p != nil {
			err = fmt.Errorf("panic: %v", p)
			panicked = true
		}
	}()
	return f(), false
}

func c15Write(g *genetics.Genome) (string, error) {
	var buf bytes.Buffer
	err, _ := c15Guard(func() error { return g.Write(&buf) })
	return buf.String(), err
}

// c15Read: id == nil uses GenomeReader.Read, otherwise genetics.ReadGenome(r, *id)
func c15Read(text string, id *int) (g *genetics.Genome, err error) {
	err, _ = c15Guard(func() error {
		var e error
		if id != nil {
			g, e = genetics.ReadGenome(strings.NewReader(text), *id)
			return e
		}
		rd, e := genetics.NewGenomeReader(strings.NewReader(text), genetics.PlainGenomeEncoding)
		if e != nil {
			return e
		}
		g, e = rd.Read()
		return e
	})
	return g, err
}

func c15PopOptions() *neat.Options {
	o := baseOptions()
	return o
}

func c15ReadPop(text string) (p *genetics.Population, err error, panicked bool) {
	err, panicked = c15Guard(func() error {
		var e error
		p, e = genetics.ReadPopulation(strings.NewReader(text), c15PopOptions())
		return e
	})
	return
}

// ---------- correspondence cases ----------

type c15Gen struct {
	r        *Run
	cf       *CaseFile
	id       int
	shard    int
	perShard int
}

const c15Imports = "Res F64 Genome GenomeLit Plain Tree C15Cases"

func (c *c15Gen) add(obs string, input interface{}) {
	if c.perShard >= 120 {
		c.cf.Close("c15_mismatches")
		c.shard++
		c.cf = c.r.NewCaseFile(c.shard, c15Imports, "c15_case")
		c.perShard = 0
	}
	c.cf.Add(fmt.Sprintf("{| c15_id := %d; c15_reg := %s; c15_what := %s |}", c.id, c15RegTerm, obs))
	c.r.SaveInput(c.id, input)
	c.id++
	c.perShard++
}

func c15OptLines(text string, err error) string {
	if err != nil {
		return "None"
	}
	return "(Some " + c15Lines(c15Tokenise(text)) + ")"
}

func (c *c15Gen) caseWrite(g *genetics.Genome) (string, error) {
	text, err := c15Write(g)
	c.add(fmt.Sprintf("ObsWrite %s %s", coqGenome(g), c15OptLines(text, err)), map[string]interface{}{"kind": "plain-write", "genome": c15Capture(g)})
	c.r.Hist("cases", "plain-write")
	return text, err
}

func (c *c15Gen) caseRead(text string, id *int) (*genetics.Genome, error) {
	g, err := c15Read(text, id)
	idt, got := "None", "None"
	if id != nil {
		idt = "(Some " + ZI(*id) + ")"
	}
	if err == nil {
		got = "(Some " + c15RGenome(g) + ")"
	}
	c.add(fmt.Sprintf("ObsRead %s %s %s", c15Lines(c15Tokenise(text)), idt, got), map[string]interface{}{"kind": "plain-read", "text": text, "id": id})
	if err == nil {
		c.r.Hist("cases", "plain-read ok")
	} else {
		c.r.Hist("cases", "plain-read error")
		c.r.Hist("reader_errors", c15ErrClass(err))
	}
	return g, err
}

func c15ErrClass(err error) string {
	s := err.Error()
	for _, k := range []string{"can not be split", "is not unique", "too short", "unsupported activation", "out of range", "expected integer", "EOF", "syntax error scanning boolean", "invalid syntax", "unexpected newline", "expected newline", "no nodes", "no Genes", "panic"} {
		if strings.Contains(s, k) {
			return k
		}
	}
	if len(s) > 40 {
		s = s[:40]
	}
	return s
}

type c15Org struct {
	Fit, High string
	Gen       int
	Child     bool
	Genome    c15Genome
}

func c15MakeOrg(o c15Org) *genetics.Organism {
	org, _ := genetics.NewOrganism(c15pf(o.Fit), c15Build(o.Genome), o.Gen)
	genetics.VC15OrgSet(org, c15pf(o.High), o.Child)
	return org
}

func (c *c15Gen) caseOrgWrite(spec c15Org) ([]byte, error) {
	org := c15MakeOrg(spec)
	var data []byte
	err, _ := c15Guard(func() error {
		var e error
		data, e = org.MarshalBinary()
		return e
	})
	term := fmt.Sprintf("(ORG %s %s %s %s %s)", F(org.Fitness), ZI(org.Generation), F(c15pf(spec.High)), B(spec.Child), coqGenome(org.Genotype))
	c.add(fmt.Sprintf("ObsOrgWrite %s %s", term, c15OptLines(string(data), err)), map[string]interface{}{"kind": "organism-write", "organism": spec})
	c.r.Hist("cases", "organism-write")
	return data, err
}

func (c *c15Gen) caseOrgRead(data string) (*genetics.Organism, error) {
	org := &genetics.Organism{}
	err, _ := c15Guard(func() error { return org.UnmarshalBinary([]byte(data)) })
	got := "None"
	if err == nil {
		h, cc := genetics.VC15OrgGet(org)
		got = fmt.Sprintf("(Some (RORG %s %s %s %s %s))", F(org.Fitness), ZI(org.Generation), F(h), B(cc), c15RGenome(org.Genotype))
		c.r.Hist("cases", "organism-read ok")
	} else {
		c.r.Hist("cases", "organism-read error")
		c.r.Hist("reader_errors", "organism: "+c15ErrClass(err))
	}
	c.add(fmt.Sprintf("ObsOrgRead %s %s", c15Lines(c15Tokenise(data)), got), map[string]interface{}{"kind": "organism-read", "text": data})
	return org, err
}

func (c *c15Gen) casePopWrite(gs []*genetics.Genome) (string, error) {
	orgs := make([]*genetics.Organism, len(gs))
	terms := make([]string, len(gs))
	js := make([]c15Genome, len(gs))
	for i, g := range gs {
		orgs[i], _ = genetics.NewOrganism(float64(i), g, 1)
		terms[i] = coqGenome(g)
		js[i] = c15Capture(g)
	}
	p := &genetics.Population{Organisms: orgs}
	var buf bytes.Buffer
	err, _ := c15Guard(func() error { return p.Write(&buf) })
	c.add(fmt.Sprintf("ObsPopWrite %s %s", List(terms), c15OptLines(buf.String(), err)), map[string]interface{}{"kind": "population-write", "genomes": js})
	c.r.Hist("cases", "population-write")
	return buf.String(), err
}

func (c *c15Gen) casePopRead(text string) (*genetics.Population, error, bool) {
	p, err, panicked := c15ReadPop(text)
	got := "PopErr"
	switch {
	case panicked:
		got = "PopPanic"
		c.r.Hist("cases", "population-read panic")
	case err != nil:
		c.r.Hist("cases", "population-read error")
		c.r.Hist("reader_errors", "population: "+c15ErrClass(err))
	default:
		terms := make([]string, len(p.Organisms))
		for i, o := range p.Organisms {
			terms[i] = c15RGenome(o.Genotype)
		}
		nn, ni := genetics.VC15PopCounters(p)
		got = fmt.Sprintf("(PopOk %s %s %s)", List(terms), Z(int64(nn)), Z(ni))
		c.r.Hist("cases", "population-read ok")
	}
	c.add(fmt.Sprintf("ObsPopRead %s %s", c15Lines(c15Tokenise(text)), got), map[string]interface{}{"kind": "population-read", "text": text})
	return p, err, panicked
}

// ---------- text mutations that stay inside the class on which the token abstraction is exact ----------
// (fields are only cut from the END of a line, replaced by a word, or replaced by another integer:
// cutting in the middle would make fmt's scanner split a float lexeme between %d and %g)

func c15Malform(rng *rand.Rand, text string) (string, string) {
	lines := strings.Split(strings.TrimSuffix(text, "\n"), "\n")
	if len(lines) == 0 {
		return text, "none"
	}
	i := rng.Intn(len(lines))
	f := strings.Split(lines[i], " ")
	kind := ""
	switch rng.Intn(15) {
	case 0: // cut trailing fields
		if len(f) > 1 {
			lines[i] = strings.Join(f[:1+rng.Intn(len(f)-1)], " ")
		}
		kind = "cut-fields"
	case 1: // replace a field by a word
		// (a boolean field is flipped instead: fmt's scanBool is lenient about other words, see the model notes)
		k := rng.Intn(len(f))
		switch f[k] {
		case "true":
			f[k] = "false"
		case "false":
			f[k] = "true"
		default:
			f[k] = []string{"x", "Foo", "NullActivation", "true"}[rng.Intn(4)]
		}
		lines[i] = strings.Join(f, " ")
		kind = "word-field"
	case 2: // delete the line
		lines = append(lines[:i], lines[i+1:]...)
		kind = "delete-line"
	case 3: // duplicate the line
		lines = append(lines[:i+1], lines[i:]...)
		kind = "duplicate-line"
	case 4: // swap with a random other line
		k := rng.Intn(len(lines))
		lines[i], lines[k] = lines[k], lines[i]
		kind = "swap-lines"
	case 5: // unknown tag
		f[0] = []string{"foo", "genomestart", "/*", "12", "Trait"}[rng.Intn(5)]
		lines[i] = strings.Join(f, " ")
		kind = "retag"
	case 6: // insert a comment / unknown / empty / one-word line
		ins := []string{"/* Organism #3 Fitness: 1.500 Error: 0.000 */", "", "genomeend", "foo bar 1", "/*", "note "}[rng.Intn(6)]
		lines = append(lines[:i], append([]string{ins}, lines[i:]...)...)
		kind = "insert-line"
	case 7: // another integer in an integer field (unknown node / trait ids, duplicate ids, wide ids)
		if len(f) > 1 {
			k := 1 + rng.Intn(len(f)-1)
			if _, err := strconv.Atoi(f[k]); err == nil {
				f[k] = []string{"0", "1", "2", "77", "-3", "2147483647", "2147483648", "127", "128", "-129", "3000000000"}[rng.Intn(11)]
				lines[i] = strings.Join(f, " ")
			}
		}
		kind = "other-int"
	case 8: // extra trailing field
		lines[i] += " " + []string{"9", "extra", "true", "1.5"}[rng.Intn(4)]
		kind = "extra-field"
	case 9: // truncate the text
		lines = lines[:i]
		kind = "truncate"
	case 10: // float lexeme variants in a float field of a gene / trait line
		if (f[0] == "gene" && len(f) > 7) || (f[0] == "trait" && len(f) > 3) {
			k := 4
			if f[0] == "trait" {
				k = 2 + rng.Intn(len(f)-2)
			} else if rng.Intn(2) == 0 {
				k = 7
			}
			f[k] = []string{"NaN", "+Inf", "-Inf", "-0", "1e22", "5e-324", "0x1p-2", "7", "-12", "1e999", "1.7976931348623157e308", ".5"}[rng.Intn(12)]
			lines[i] = strings.Join(f, " ")
		}
		kind = "float-lexeme"
	case 11: // move a gene line before the node lines (endpoints become nil)
		for k, l := range lines {
			if strings.HasPrefix(l, "gene ") {
				g := lines[k]
				rest := append(append([]string{}, lines[:k]...), lines[k+1:]...)
				lines = append([]string{rest[0], g}, rest[1:]...)
				break
			}
		}
		kind = "gene-first"
	case 12: // node line with 4 or 6 fields (default activation)
		for k, l := range lines {
			if strings.HasPrefix(l, "node ") && rng.Intn(3) == 0 {
				ff := strings.Split(l, " ")
				if rng.Intn(2) == 0 && len(ff) >= 5 {
					lines[k] = strings.Join(ff[:5], " ")
				} else {
					lines[k] = l + " x"
				}
			}
		}
		kind = "node-arity"
	case 13: // two genomes in one stream
		lines = append(lines, lines...)
		kind = "twice"
	default: // a second genomeend with another id
		lines = append(lines, "genomeend 4242 1")
		kind = "second-end"
	}
	return strings.Join(lines, "\n") + "\n", kind
}

// ---------- YAML at tree level ----------

// c15Tree renders what yaml.v3 decodes into interface{}; ok=false for shapes outside the tree model
func c15Tree(v interface{}) (string, bool) {
	switch x := v.(type) {
	case nil:
		return "VNil", true
	case int:
		return "(VInt " + ZI(x) + ")", true
	case int64:
		return "(VInt " + Z(x) + ")", true
	case float64:
		return "(VFloat " + F(x) + ")", true
	case bool:
		return "(VBool " + B(x) + ")", true
	case string:
		return "(VStr " + c15Str(x) + ")", true
	case []interface{}:
		it := make([]string, len(x))
		for i, e := range x {
			t, ok := c15Tree(e)
			if !ok {
				return "", false
			}
			it[i] = t
		}
		return "(VList " + List(it) + ")", true
	case map[string]interface{}:
		keys := make([]string, 0, len(x))
		for k := range x {
			keys = append(keys, k)
		}
		sort.Strings(keys)
		it := make([]string, len(keys))
		for i, k := range keys {
			t, ok := c15Tree(x[k])
			if !ok {
				return "", false
			}
			it[i] = "KV " + c15Str(k) + " " + t
		}
		return "(VMap " + List(it) + ")", true
	}
	return "", false
}

func c15YAMLTree(text string) (string, bool) {
	var v interface{}
	err, _ := c15Guard(func() error { return yaml.Unmarshal([]byte(text), &v) })
	if err != nil {
		return "", false
	}
	return c15Tree(v)
}

func c15Mimo(m *genetics.MIMOControlGene) string {
	var ins, outs []string
	for _, l := range m.ControlNode.Incoming {
		ins = append(ins, Pair(ZI(l.InNode.Id), F(l.ConnectionWeight)))
	}
	for _, l := range m.ControlNode.Outgoing {
		outs = append(outs, Pair(ZI(l.OutNode.Id), F(l.ConnectionWeight)))
	}
	return fmt.Sprintf("(MM %s %s %s %s %s %s)", coqNode(m.ControlNode), Z(m.InnovationNum), F(m.MutationNum), B(m.IsEnabled), List(ins), List(outs))
}

func c15ReadYAML(text string) (g *genetics.Genome, err error, panicked bool) {
	err, panicked = c15Guard(func() error {
		rd, e := genetics.NewGenomeReader(strings.NewReader(text), genetics.YAMLGenomeEncoding)
		if e != nil {
			return e
		}
		g, e = rd.Read()
		return e
	})
	return
}

func (c *c15Gen) caseYamlWrite(g *genetics.Genome) (string, error) {
	text, err := c15YAML(g)
	got := "None"
	if err == nil {
		t, ok := c15YAMLTree(text)
		if !ok {
			c.r.Note("YAML writer output does not decode generically")
			return text, err
		}
		got = "(Some " + t + ")"
	}
	c.add(fmt.Sprintf("ObsYamlWrite %s %s", coqGenome(g), got), map[string]interface{}{"kind": "yaml", "genome": c15Capture(g)})
	c.r.Hist("cases", "yaml-write")
	return text, err
}

func (c *c15Gen) caseYamlRead(text string) {
	t, ok := c15YAMLTree(text)
	if !ok {
		c.r.Hist("cases", "yaml-read skipped (not a tree)")
		return
	}
	g, err, panicked := c15ReadYAML(text)
	got := "YErr"
	switch {
	case panicked:
		got = "YPanic"
		c.r.Hist("cases", "yaml-read panic")
	case err != nil:
		c.r.Hist("cases", "yaml-read error")
	default:
		ms := make([]string, len(g.ControlGenes))
		for i, m := range g.ControlGenes {
			ms[i] = c15Mimo(m)
		}
		got = fmt.Sprintf("(YOk (YG %s %s))", c15RGenome(g), List(ms))
		c.r.Hist("cases", "yaml-read ok")
	}
	c.add(fmt.Sprintf("ObsYamlRead %s %s", t, got), map[string]interface{}{"kind": "yaml-read", "text": text})
}

// c15MalformYAML changes one scalar or drops one line of a YAML text
func c15MalformYAML(rng *rand.Rand, text string) (string, string) {
	lines := strings.Split(strings.TrimSuffix(text, "\n"), "\n")
	i := rng.Intn(len(lines))
	switch rng.Intn(4) {
	case 0:
		lines = append(lines[:i], lines[i+1:]...)
		return strings.Join(lines, "\n") + "\n", "drop-line"
	case 1:
		if k := strings.Index(lines[i], ": "); k >= 0 {
			lines[i] = lines[i][:k+2] + []string{"x", "1.5", "true", "7", "0", "~", "[]", "-3", "INPT", "NullActivation", "1e3"}[rng.Intn(11)]
		}
		return strings.Join(lines, "\n") + "\n", "other-scalar"
	case 2:
		lines = append(lines[:i+1], lines[i:]...)
		return strings.Join(lines, "\n") + "\n", "duplicate-line"
	default:
		if k := strings.Index(lines[i], "id: "); k >= 0 {
			lines[i] = lines[i][:k+4] + []string{"0", "1", "2", "77"}[rng.Intn(4)]
		}
		return strings.Join(lines, "\n") + "\n", "other-id"
	}
}

// ---------- experiment at value-sequence level ----------

func c15ChampTerm(ch *c15Champ) string {
	g := c15Build(ch.Genome)
	return fmt.Sprintf("(CH %s %s %s %s %s %s)", F(c15pf(ch.Fitness)), B(ch.IsWinner), ZI(ch.Generation), F(c15pf(ch.Offspring)), F(c15pf(ch.Error)), coqGenome(g))
}

func c15ExpTerm(s c15ExpSpec) string {
	ts := make([]string, len(s.Trials))
	for i, t := range s.Trials {
		gs := make([]string, len(t.Gens))
		for k, g := range t.Gens {
			ch := "None"
			if g.Champion != nil {
				ch = "(Some " + c15ChampTerm(g.Champion) + ")"
			}
			gs[k] = fmt.Sprintf("(GEN %s %s %s %s %s %s %s %s %s %s %s %s %s)", ZI(g.Id), Z(g.ExecutedNs), B(g.Solved), FList(c15Fl(g.Fitness)), FList(c15Fl(g.Age)),
				FList(c15Fl(g.Complexity)), ZI(g.Diversity), ZI(g.WinnerEvals), ZI(g.WinnerNodes), ZI(g.WinnerGenes), Z(g.DurationNs), ZI(g.TrialId), ch)
		}
		ts[i] = fmt.Sprintf("(TR %s %s)", ZI(t.Id), List(gs))
	}
	return fmt.Sprintf("(EXPT %s %s %s)", ZI(s.Id), c15Str(s.Name), List(ts))
}

func c15ExpBackTerm(e *experiment.Experiment) (string, bool) {
	ts := make([]string, len(e.Trials))
	for i, t := range e.Trials {
		gs := make([]string, len(t.Generations))
		for k, g := range t.Generations {
			if g.Champion == nil || g.Champion.Genotype == nil {
				return "", false
			}
			o := g.Champion
			ch := fmt.Sprintf("(RCH %s %s %s %s %s %s)", F(o.Fitness), B(o.IsWinner), ZI(o.Generation), F(o.ExpectedOffspring), F(o.Error), c15RGenome(o.Genotype))
			gs[k] = fmt.Sprintf("(GEN %s %s %s %s %s %s %s %s %s %s %s %s %s)", ZI(g.Id), Z(g.Executed.UnixNano()), B(g.Solved), FList(g.Fitness), FList(g.Age),
				FList(g.Complexity), ZI(g.Diversity), ZI(g.WinnerEvals), ZI(g.WinnerNodes), ZI(g.WinnerGenes), Z(int64(g.Duration)), ZI(g.TrialId), ch)
		}
		ts[i] = fmt.Sprintf("(TR %s %s)", ZI(t.Id), List(gs))
	}
	return fmt.Sprintf("(EXPT %s %s %s)", ZI(e.Id), c15Str(e.Name), List(ts)), true
}

func (c *c15Gen) caseExp(spec c15ExpSpec) {
	e := c15MakeExp(spec)
	var buf bytes.Buffer
	got := "None"
	if err, _ := c15Guard(func() error { return e.Write(&buf) }); err == nil {
		back := &experiment.Experiment{}
		if err, _ := c15Guard(func() error { return back.Read(bytes.NewReader(buf.Bytes())) }); err == nil {
			if t, ok := c15ExpBackTerm(back); ok {
				got = "(Some " + t + ")"
			}
		}
	}
	c.add(fmt.Sprintf("ObsExp %s %s", c15ExpTerm(spec), got), map[string]interface{}{"kind": "experiment", "experiment": spec})
	if got == "None" {
		c.r.Hist("cases", "experiment rejected")
	} else {
		c.r.Hist("cases", "experiment ok")
	}
}

// ---------- genome pool ----------

var c15EdgeFloats = []float64{0, math.Copysign(0, -1), 1, -1, 0.1, 1e22, 1e21, 1e20, 123456789, 1e-7, 5e-324, 2.2250738585072014e-308,
	2.225073858507201e-308, math.MaxFloat64, -math.MaxFloat64, math.SmallestNonzeroFloat64, 0.30000000000000004, 1.0000000000000002,
	9007199254740993, 4.35, 100000, 1000000, 999999.9999999999, 1e6 + 0.5, -2.5e-5, 3.141592653589793}

func c15RandFloat(rng *rand.Rand, allowNonFinite bool) float64 {
	switch rng.Intn(6) {
	case 0:
		return c15EdgeFloats[rng.Intn(len(c15EdgeFloats))]
	case 1:
		for {
			x := math.Float64frombits(rng.Uint64())
			if !math.IsNaN(x) && !math.IsInf(x, 0) {
				return x
			}
		}
	case 2:
		if allowNonFinite {
			return []float64{math.Inf(1), math.Inf(-1), math.NaN()}[rng.Intn(3)]
		}
		return rng.NormFloat64()
	case 3:
		return float64(rng.Intn(2000) - 1000)
	default:
		return rng.NormFloat64() * math.Pow(10, float64(rng.Intn(40)-20))
	}
}

// c15Evolved: well-formed genomes from operator histories on the real code (weights straight from mutation,
// disabled and recurrent genes, nil traits)
func c15Evolved(r *Run, histories, steps int) []*genetics.Genome {
	var pool []*genetics.Genome
	o := &opsGen{r: r, prop: "none"}
	for h := 0; h < histories; h++ {
		f := newFamily(r.Rng)
		for s := 0; s < steps; s++ {
			_, _, _, out, _ := o.stepRec(f, s, 0.3, defaultMutWeights, "none")
			if out.err != nil || out.child == nil {
				continue
			}
			if wfGenome(out.child) == nil {
				f.members = append(f.members, out.child)
				if s >= steps/3 && r.Rng.Intn(3) == 0 {
					pool = append(pool, out.child)
				}
			}
		}
		pool = append(pool, f.members[len(f.members)-1])
	}
	return pool
}

// c15Edgy rewrites the scalar content of a well-formed genome with boundary values, keeping its structure
func c15Edgy(rng *rand.Rand, g *genetics.Genome, nonFinite bool, names []int) *genetics.Genome {
	j := c15Capture(g)
	j.Id = []int{0, 1, 7, 1 << 20, -5}[rng.Intn(5)]
	for i := range j.Traits {
		for k := range j.Traits[i].Params {
			if rng.Intn(3) == 0 {
				j.Traits[i].Params[k] = c15fs(c15RandFloat(rng, nonFinite))
			}
		}
	}
	for i := range j.Genes {
		if rng.Intn(2) == 0 {
			j.Genes[i].W = c15fs(c15RandFloat(rng, nonFinite))
		}
		if rng.Intn(2) == 0 {
			j.Genes[i].Mut = c15fs(c15RandFloat(rng, nonFinite))
		}
		if rng.Intn(4) == 0 {
			j.Genes[i].En = !j.Genes[i].En
		}
		if rng.Intn(6) == 0 {
			j.Genes[i].Rec = !j.Genes[i].Rec
		}
		if rng.Intn(4) == 0 {
			j.Genes[i].Trait = nil
		}
	}
	for i := range j.Nodes {
		if rng.Intn(3) == 0 {
			j.Nodes[i].Trait = nil
		}
		if len(names) > 0 && rng.Intn(2) == 0 {
			j.Nodes[i].Act = names[rng.Intn(len(names))]
		}
	}
	return c15Build(j)
}

// c15Odd: genomes outside the writer's comfort zone (what the format normalises or rejects)
func c15Odd(rng *rand.Rand, g *genetics.Genome) (*genetics.Genome, string) {
	j := c15Capture(g)
	ip := func(i int) *int { return &i }
	kind := ""
	switch rng.Intn(12) {
	case 0: // trait with 9 parameters
		if len(j.Traits) > 0 {
			j.Traits[0].Params = append(j.Traits[0].Params, c15fs(7.5))
		}
		kind = "nine-params"
	case 1: // trait with 7 / 0 parameters
		if len(j.Traits) > 0 {
			k := rng.Intn(len(j.Traits))
			j.Traits[k].Params = j.Traits[k].Params[:[]int{7, 0, 1}[rng.Intn(3)]]
		}
		kind = "few-params"
	case 2: // duplicate trait id
		if len(j.Traits) > 1 {
			j.Traits[len(j.Traits)-1].Id = j.Traits[0].Id
		}
		kind = "dup-trait"
	case 3: // traits with id 0, referenced
		if len(j.Traits) > 0 {
			j.Traits[0].Id = 0
		}
		j.Traits = append(j.Traits, c15T{0, []string{"0x1p+0", "0x0p+0", "0x0p+0", "0x0p+0", "0x0p+0", "0x0p+0", "0x0p+0", "0x0p+0"}})
		if len(j.Nodes) > 0 {
			j.Nodes[0].Trait = ip(0)
		}
		kind = "trait-id-0"
	case 4: // reference to a foreign trait
		if len(j.Genes) > 0 {
			j.Genes[0].Trait = ip(99)
		}
		if len(j.Nodes) > 1 {
			j.Nodes[1].Trait = ip(98)
		}
		kind = "foreign-trait"
	case 5: // gene endpoint that is not one of the genome's nodes
		if len(j.Genes) > 0 {
			k := rng.Intn(len(j.Genes))
			if rng.Intn(2) == 0 {
				j.Genes[k].In = 4711
			} else {
				j.Genes[k].Out = 4712
			}
		}
		kind = "foreign-endpoint"
	case 6: // duplicate node id
		if len(j.Nodes) > 1 {
			j.Nodes[len(j.Nodes)-1].Id = j.Nodes[0].Id
		}
		kind = "dup-node"
	case 7: // unregistered activation type: the writer must fail
		if len(j.Nodes) > 0 {
			j.Nodes[rng.Intn(len(j.Nodes))].Act = []int{0, 100, 127}[rng.Intn(3)]
		}
		kind = "unknown-activation"
	case 8: // node id beyond int32
		if len(j.Nodes) > 0 {
			j.Nodes[len(j.Nodes)-1].Id = []int{1 << 31, 1<<31 - 1, -(1 << 31), -(1 << 31) - 1}[rng.Intn(4)]
		}
		kind = "wide-node-id"
	case 9: // no genes / no nodes / nothing
		switch rng.Intn(3) {
		case 0:
			j.Genes = nil
		case 1:
			j.Genes, j.Nodes = nil, nil
		default:
			j.Genes, j.Nodes, j.Traits = nil, nil, nil
		}
		kind = "empty-parts"
	case 10: // unsorted nodes and genes, negative ids
		if len(j.Nodes) > 1 {
			j.Nodes[0], j.Nodes[len(j.Nodes)-1] = j.Nodes[len(j.Nodes)-1], j.Nodes[0]
		}
		if len(j.Genes) > 1 {
			j.Genes[0], j.Genes[len(j.Genes)-1] = j.Genes[len(j.Genes)-1], j.Genes[0]
			j.Genes[0].Innov = -j.Genes[0].Innov
		}
		kind = "unsorted"
	default: // neuron type outside 0..3
		if len(j.Nodes) > 0 {
			j.Nodes[0].Type = []int{4, 127, -1, 128}[rng.Intn(4)]
		}
		kind = "odd-neuron-type"
	}
	return c15Build(j), kind
}

// ---------- Go-side oracles (the property statement on the real code) ----------

type c15Oracle struct {
	r *Run
}

func (o *c15Oracle) fail(key, what string, input map[string]interface{}, observed, required interface{}) {
	o.r.Fail(Failure{Key: key, What: what, Input: input, Observed: observed, Required: required})
}

func c15Floats(j c15Genome) []float64 {
	var fs []float64
	for _, t := range j.Traits {
		for _, p := range t.Params {
			fs = append(fs, c15pf(p))
		}
	}
	for _, g := range j.Genes {
		fs = append(fs, c15pf(g.W), c15pf(g.Mut))
	}
	return fs
}

// the trusted assumption of the model, monitored: shortest %g formatting reads back to the same float64
func (o *c15Oracle) strconvRoundTrip(fs []float64) {
	for _, f := range fs {
		s := fmt.Sprintf("%g", f)
		var back float64
		_, err := fmt.Sscanf(s, "%g", &back)
		s2 := strconv.FormatFloat(f, 'g', -1, 64)
		b2, err2 := strconv.ParseFloat(s2, 64)
		ok := err == nil && err2 == nil && s == s2 && (math.Float64bits(back) == math.Float64bits(f) || (math.IsNaN(f) && math.IsNaN(back))) &&
			(math.Float64bits(b2) == math.Float64bits(f) || (math.IsNaN(f) && math.IsNaN(b2)))
		if !ok {
			o.fail("strconv-roundtrip "+c15fs(f), "fmt %g / Sscanf %g does not round-trip a float64 (trusted assumption of the token model)",
				map[string]interface{}{"kind": "float", "value": c15fs(f)}, fmt.Sprint(s, " -> ", c15fs(back), " ", err), c15fs(f))
		}
		o.r.Hist("float_class", c15FloatClass(f))
	}
}

func c15FloatClass(f float64) string {
	switch {
	case math.IsNaN(f):
		return "nan"
	case math.IsInf(f, 0):
		return "inf"
	case f == 0 && math.Signbit(f):
		return "-0"
	case f == 0:
		return "0"
	case math.Abs(f) < 2.2250738585072014e-308:
		return "denormal"
	case f == math.Trunc(f) && math.Abs(f) < 1e6:
		return "small integer"
	case math.Abs(f) >= 1e21:
		return ">=1e21"
	case math.Abs(f) < 1e-4:
		return "<1e-4"
	}
	return "ordinary"
}

func (o *c15Oracle) plain(g *genetics.Genome) {
	in := map[string]interface{}{"kind": "plain", "genome": c15Capture(g)}
	want := c15Capture(g)
	text, err := c15Write(g)
	if err != nil {
		o.fail("plain-write-error", "Genome.Write failed on a well-formed genome", in, err.Error(), "nil error")
		return
	}
	for pass := 0; pass < 2; pass++ {
		var id *int
		if pass == 1 {
			id = &g.Id
		}
		g2, err := c15Read(text, id)
		if err != nil {
			o.fail("plain-read-error", "the plain reader rejects what the plain writer wrote", in, err.Error(), "nil error")
			return
		}
		if d := c15Diff(want, c15Capture(g2), true, false); d != "" {
			o.fail("plain-roundtrip "+strings.Fields(d)[0], "a genome written in the plain encoding does not read back equal", in, d, "identical traits, nodes, genes, id")
			return
		}
	}
}

func c15YAML(g *genetics.Genome) (string, error) {
	var buf bytes.Buffer
	err, _ := c15Guard(func() error {
		w, e := genetics.NewGenomeWriter(&buf, genetics.YAMLGenomeEncoding)
		if e != nil {
			return e
		}
		return w.WriteGenome(g)
	})
	return buf.String(), err
}

func (o *c15Oracle) yaml(g *genetics.Genome) {
	in := map[string]interface{}{"kind": "yaml", "genome": c15Capture(g)}
	text, err := c15YAML(g)
	if err != nil {
		o.fail("yaml-write-error", "the YAML writer failed on a well-formed genome", in, err.Error(), "nil error")
		return
	}
	var g2 *genetics.Genome
	err, _ = c15Guard(func() error {
		rd, e := genetics.NewGenomeReader(strings.NewReader(text), genetics.YAMLGenomeEncoding)
		if e != nil {
			return e
		}
		g2, e = rd.Read()
		return e
	})
	if err != nil {
		o.fail("yaml-read-error", "the YAML reader rejects what the YAML writer wrote", in, err.Error(), "nil error")
		return
	}
	// the YAML library prints -0 as "-0", which it reads back as the integer 0: numerically equal
	if d := c15Diff(c15Capture(g), c15Capture(g2), false, true); d != "" {
		o.fail("yaml-roundtrip "+strings.Fields(d)[0], "a genome written in the YAML encoding does not read back equal", in, d, "identical traits, nodes, genes, modules, id (floats numerically)")
		return
	}
}

// yamlSequence: ONE YAML genome writer used for several genomes, each read back before the next is written (a
// buffer used as a pipe): every genome must read back equal, whatever was written through the same writer before
func (o *c15Oracle) yamlSequence(gs []*genetics.Genome) {
	var caps []c15Genome
	for _, g := range gs {
		caps = append(caps, c15Capture(g))
	}
	in := map[string]interface{}{"kind": "yaml-sequence", "genomes": caps}
	var buf bytes.Buffer
	w, err := genetics.NewGenomeWriter(&buf, genetics.YAMLGenomeEncoding)
	if err != nil {
		return
	}
	for i, g := range gs {
		buf.Reset()
		if err, _ := c15Guard(func() error { return w.WriteGenome(g) }); err != nil {
			o.fail("yaml-sequence write-error", fmt.Sprintf("the YAML writer failed on genome %d of a sequence", i), in, err.Error(), "nil error")
			return
		}
		var g2 *genetics.Genome
		err, _ := c15Guard(func() error {
			rd, e := genetics.NewGenomeReader(bytes.NewReader(buf.Bytes()), genetics.YAMLGenomeEncoding)
			if e != nil {
				return e
			}
			g2, e = rd.Read()
			return e
		})
		if err != nil {
			o.fail("yaml-sequence read-error", fmt.Sprintf("genome %d written through a reused YAML writer is rejected by the reader", i), in, err.Error(), "nil error")
			return
		}
		if d := c15Diff(c15Capture(g), c15Capture(g2), false, true); d != "" {
			o.fail("yaml-sequence "+strings.Fields(d)[0], fmt.Sprintf("genome %d written through a reused YAML writer does not read back equal", i), in, d, "identical genome")
			return
		}
	}
}

func (o *c15Oracle) organism(spec c15Org) {
	in := map[string]interface{}{"kind": "organism", "organism": spec}
	org := c15MakeOrg(spec)
	var data []byte
	err, _ := c15Guard(func() error {
		var e error
		data, e = org.MarshalBinary()
		return e
	})
	if err != nil {
		o.fail("organism-marshal-error", "Organism.MarshalBinary failed", in, err.Error(), "nil error")
		return
	}
	// the bytes handed out belong to the caller: marshalling another organism before they are consumed must
	// not change them (several results are alive at once when a population is shipped between goroutines)
	kept := append([]byte{}, data...)
	decoy := c15MakeOrg(spec)
	decoy.Fitness, decoy.Generation = decoy.Fitness+1.5, decoy.Generation+7
	_, _ = c15Guard(func() error {
		_, e := decoy.MarshalBinary()
		return e
	})
	if !bytes.Equal(kept, data) {
		o.fail("organism-marshal-result-overwritten", "the bytes returned by MarshalBinary changed when another organism was marshalled afterwards", in, "changed", "unchanged")
		return
	}
	back := &genetics.Organism{}
	if err, _ = c15Guard(func() error { return back.UnmarshalBinary(data) }); err != nil {
		o.fail("organism-unmarshal-error", "Organism.UnmarshalBinary rejects what MarshalBinary wrote", in, err.Error(), "nil error")
		return
	}
	feq := func(a, b float64) bool {
		return math.Float64bits(a) == math.Float64bits(b) || (math.IsNaN(a) && math.IsNaN(b))
	}
	h, cc := genetics.VC15OrgGet(back)
	switch {
	case !feq(back.Fitness, org.Fitness):
		o.fail("organism-roundtrip fitness", "fitness not restored", in, back.Fitness, org.Fitness)
	case back.Generation != org.Generation:
		o.fail("organism-roundtrip generation", "generation not restored", in, back.Generation, org.Generation)
	case !feq(h, c15pf(spec.High)) || cc != spec.Child:
		o.fail("organism-roundtrip champion-fields", "highest fitness / champion child flag not restored", in, fmt.Sprint(h, cc), fmt.Sprint(spec.High, spec.Child))
	default:
		if d := c15Diff(c15Capture(org.Genotype), c15Capture(back.Genotype), true, false); d != "" {
			o.fail("organism-roundtrip genome", "organism genome not restored", in, d, "identical genome")
		}
	}
}

// mode 0: Population.Write, 1: Genome.Write one after another, 2: Population.WriteBySpecies (comment headers)
func (o *c15Oracle) population(js []c15Genome, mode int, seed int64) {
	in := map[string]interface{}{"kind": "population", "genomes": js, "mode": mode, "seed": seed}
	if len(js) == 0 {
		// an empty stream is rejected by the closing speciation step ("no organisms to speciate from"):
		// a population has at least one organism
		o.r.Hist("population_oracle", "empty: skipped")
		return
	}
	rng := rand.New(rand.NewSource(seed))
	gs := make([]*genetics.Genome, len(js))
	orgs := make([]*genetics.Organism, len(js))
	for i, j := range js {
		gs[i] = c15Build(j)
		orgs[i], _ = genetics.NewOrganism(float64(rng.Intn(5)), gs[i], 1)
		orgs[i].IsWinner = rng.Intn(4) == 0
	}
	var buf bytes.Buffer
	var want []c15Genome
	ordered := true
	err, _ := c15Guard(func() error {
		switch mode {
		case 0:
			return (&genetics.Population{Organisms: orgs}).Write(&buf)
		case 1:
			for _, g := range gs {
				if e := g.Write(&buf); e != nil {
					return e
				}
			}
			return nil
		default:
			ordered = false
			p := &genetics.Population{Organisms: orgs}
			nsp := 1 + rng.Intn(3)
			for s := 0; s < nsp; s++ {
				sp := genetics.NewSpecies(s + 1)
				sp.Age = rng.Intn(9)
				p.Species = append(p.Species, sp)
			}
			for _, org := range orgs {
				sp := p.Species[rng.Intn(nsp)]
				sp.Organisms = append(sp.Organisms, org)
				org.Species = sp
			}
			return p.WriteBySpecies(&buf)
		}
	})
	if err != nil {
		o.fail("population-write-error", "writing a population failed", in, err.Error(), "nil error")
		return
	}
	for _, j := range js {
		want = append(want, j)
	}
	p, err, _ := c15ReadPop(buf.String())
	if err != nil {
		o.fail("population-read-error", "ReadPopulation rejects what the population writer wrote", in, err.Error(), "nil error")
		return
	}
	if len(p.Organisms) != len(want) {
		o.fail("population-roundtrip count", "number of genomes read differs from the number written", in, len(p.Organisms), len(want))
		return
	}
	got := make([]c15Genome, len(p.Organisms))
	for i, org := range p.Organisms {
		got[i] = c15Capture(org.Genotype)
	}
	if !ordered {
		// WriteBySpecies orders by species and fitness: compare as multisets
		key := func(j c15Genome) string { b, _ := json.Marshal(j); return string(b) }
		strip := func(l []c15Genome) []c15Genome {
			out := make([]c15Genome, len(l))
			for i, j := range l {
				j.Mods = nil
				out[i] = j
			}
			sort.Slice(out, func(a, b int) bool { return key(out[a]) < key(out[b]) })
			return out
		}
		want, got = strip(want), strip(got)
	}
	for i := range want {
		if d := c15Diff(want[i], got[i], true, false); d != "" {
			o.fail(fmt.Sprintf("population-roundtrip mode=%d %s", mode, strings.Fields(d)[0]), "a genome of a written population does not read back equal", in,
				fmt.Sprintf("genome #%d: %s", i, d), "the same genomes")
			return
		}
	}
}

// FMNS model file: the restored solver computes identical outputs
func (o *c15Oracle) fmns(j c15Genome, seed int64) {
	in := map[string]interface{}{"kind": "fmns", "genome": j, "seed": seed}
	g := c15Build(j)
	var solver network.Solver
	err, _ := c15Guard(func() error {
		net, e := g.Genesis(g.Id)
		if e != nil {
			return e
		}
		solver, e = net.FastNetworkSolver()
		return e
	})
	if err != nil {
		o.r.Hist("fmns", "genesis/solver error: "+c15ErrClass(err))
		return
	}
	fm, ok := solver.(*network.FastModularNetworkSolver)
	if !ok {
		o.r.Hist("fmns", "not a FastModularNetworkSolver")
		return
	}
	var buf bytes.Buffer
	if err, _ = c15Guard(func() error { return fm.WriteModel(&buf) }); err != nil {
		finite := true
		for _, f := range c15Floats(j) {
			if math.IsNaN(f) || math.IsInf(f, 0) {
				finite = false
			}
		}
		if finite {
			o.fail("fmns-write-error", "WriteModel failed on a solver with finite weights", in, err.Error(), "nil error")
		} else {
			o.r.Hist("fmns", "write refused non-finite weight")
		}
		return
	}
	var back *network.FastModularNetworkSolver
	if err, _ = c15Guard(func() error {
		var e error
		back, e = network.ReadFMNSModel(bytes.NewReader(buf.Bytes()))
		return e
	}); err != nil {
		o.fail("fmns-read-error", "ReadFMNSModel rejects what WriteModel wrote", in, err.Error(), "nil error")
		return
	}
	// written again, the restored solver gives the same model file (ids, names, counts, activation names,
	// bias list, connections with weights and signals, modules)
	var again bytes.Buffer
	if err, _ = c15Guard(func() error { return back.WriteModel(&again) }); err != nil || again.String() != buf.String() {
		o.fail("fmns-roundtrip model-file", "the model file written by the restored solver differs from the original model file", in,
			fmt.Sprint(err, " ", again.String()), buf.String())
		return
	}
	if back.NodeCount() != fm.NodeCount() || back.LinkCount() != fm.LinkCount() {
		o.fail("fmns-roundtrip counts", "node / link count of the restored solver differs", in, fmt.Sprint(back.NodeCount(), back.LinkCount()), fmt.Sprint(fm.NodeCount(), fm.LinkCount()))
		return
	}
	rng := rand.New(rand.NewSource(seed))
	nin := 0
	for _, n := range j.Nodes {
		if n.Type == int(network.InputNeuron) {
			nin++
		}
	}
	run := func(s *network.FastModularNetworkSolver, inputs []float64, mode int) string {
		var out []float64
		var res bool
		err, _ := c15Guard(func() error {
			if e := s.LoadSensors(inputs); e != nil {
				return e
			}
			var e error
			switch mode {
			case 0:
				res, e = s.ForwardSteps(3)
			case 1:
				res, e = s.RecursiveSteps()
			default:
				res, e = s.Relax(5, 1e-3)
			}
			out = s.ReadOutputs()
			return e
		})
		bits := make([]uint64, len(out))
		for i, x := range out {
			bits[i] = math.Float64bits(x)
			if math.IsNaN(x) {
				bits[i] = 1
			}
		}
		return fmt.Sprint(res, err, bits)
	}
	for trial := 0; trial < 6; trial++ {
		inputs := make([]float64, nin)
		for i := range inputs {
			inputs[i] = rng.NormFloat64() * 3
		}
		mode := trial % 3
		a, b := run(fm, inputs, mode), run(back, inputs, mode)
		if a != b {
			o.fail(fmt.Sprintf("fmns-roundtrip outputs mode=%d", mode), "the solver restored from the model file computes different outputs", in,
				map[string]interface{}{"inputs": inputs, "restored": b}, a)
			return
		}
		if trial%2 == 1 {
			_, _ = fm.Flush()
			_, _ = back.Flush()
		}
	}
	o.r.Hist("fmns", "round trip compared")
}

// ---------- experiment ----------

type c15Champ struct {
	Fitness, Offspring, Error string
	IsWinner                  bool
	Generation                int
	Genome                    c15Genome
}
type c15GenSpec struct {
	Id                                                        int
	ExecutedNs, DurationNs                                    int64
	Solved                                                    bool
	Fitness, Age, Complexity                                  []string
	Diversity, WinnerEvals, WinnerNodes, WinnerGenes, TrialId int
	Champion                                                  *c15Champ
}
type c15TrialSpec struct {
	Id   int
	Gens []c15GenSpec
}
type c15ExpSpec struct {
	Id     int
	Name   string
	Trials []c15TrialSpec
}

func c15Fl(ss []string) experiment.Floats {
	out := make(experiment.Floats, len(ss))
	for i, s := range ss {
		out[i] = c15pf(s)
	}
	return out
}

func c15MakeExp(s c15ExpSpec) *experiment.Experiment {
	e := &experiment.Experiment{Id: s.Id, Name: s.Name}
	e.Trials = make(experiment.Trials, 0)
	for _, t := range s.Trials {
		tr := experiment.Trial{Id: t.Id, Generations: make(experiment.Generations, 0)}
		for _, g := range t.Gens {
			gen := experiment.Generation{Id: g.Id, Executed: time.Unix(0, g.ExecutedNs).UTC(), Duration: time.Duration(g.DurationNs), Solved: g.Solved,
				Fitness: c15Fl(g.Fitness), Age: c15Fl(g.Age), Complexity: c15Fl(g.Complexity), Diversity: g.Diversity,
				WinnerEvals: g.WinnerEvals, WinnerNodes: g.WinnerNodes, WinnerGenes: g.WinnerGenes, TrialId: g.TrialId}
			if g.Champion != nil {
				org, _ := genetics.NewOrganism(c15pf(g.Champion.Fitness), c15Build(g.Champion.Genome), g.Champion.Generation)
				org.IsWinner = g.Champion.IsWinner
				org.ExpectedOffspring = c15pf(g.Champion.Offspring)
				org.Error = c15pf(g.Champion.Error)
				gen.Champion = org
			}
			tr.Generations = append(tr.Generations, gen)
		}
		e.Trials = append(e.Trials, tr)
	}
	return e
}

// c15ExpView: everything the statement asks to be restored, as a comparable value
func c15ExpView(e *experiment.Experiment) (view map[string]interface{}) {
	view = map[string]interface{}{}
	fl := func(x experiment.Floats) []string {
		out := make([]string, len(x))
		for i, v := range x {
			out[i] = c15fs(v)
		}
		return out
	}
	safe := func(name string, f func() interface{}) {
		defer func() {
			if p := recover(); p != nil {
				view[name] = fmt.Sprint("panic: ", p)
			}
		}()
		view[name] = f()
	}
	orgView := func(o *genetics.Organism) interface{} {
		if o == nil {
			return nil
		}
		m := map[string]interface{}{"fitness": c15fs(o.Fitness), "winner": o.IsWinner, "generation": o.Generation,
			"offspring": c15fs(o.ExpectedOffspring), "error": c15fs(o.Error)}
		if o.Genotype != nil {
			j := c15Capture(o.Genotype)
			j.Mods = nil
			m["genome"] = j
		}
		return m
	}
	view["id"], view["name"] = e.Id, e.Name
	var trials []interface{}
	for ti := range e.Trials {
		t := &e.Trials[ti]
		tv := map[string]interface{}{"id": t.Id}
		var gens []interface{}
		for gi := range t.Generations {
			g := &t.Generations[gi]
			gens = append(gens, map[string]interface{}{"id": g.Id, "executed": g.Executed.UnixNano(), "duration": int64(g.Duration), "solved": g.Solved,
				"fitness": fl(g.Fitness), "age": fl(g.Age), "complexity": fl(g.Complexity), "diversity": g.Diversity, "evals": g.WinnerEvals,
				"nodes": g.WinnerNodes, "genes": g.WinnerGenes, "trial": g.TrialId, "champion": orgView(g.Champion)})
		}
		tv["generations"] = gens
		trials = append(trials, tv)
	}
	view["trials"] = trials
	// derived statistics (those that are functions of what the format carries)
	safe("AvgEpochDuration", func() interface{} { return int64(e.AvgEpochDuration()) })
	safe("AvgGenerationsPerTrial", func() interface{} { return c15fs(e.AvgGenerationsPerTrial()) })
	safe("MostRecentTrialEvalTime", func() interface{} { return e.MostRecentTrialEvalTime().UnixNano() })
	safe("Solved", func() interface{} { return e.Solved() })
	safe("TrialsSolved", func() interface{} { return e.TrialsSolved() })
	safe("SuccessRate", func() interface{} { return c15fs(e.SuccessRate()) })
	safe("EpochsPerTrial", func() interface{} { return fl(e.EpochsPerTrial()) })
	safe("AvgDiversity", func() interface{} { return fl(e.AvgDiversity()) })
	safe("BestFitness", func() interface{} { return fl(e.BestFitness()) })
	safe("BestComplexity", func() interface{} { return fl(e.BestComplexity()) })
	safe("AvgWinnerStatistics", func() interface{} {
		a, b, c, d := e.AvgWinnerStatistics()
		return []string{c15fs(a), c15fs(b), c15fs(c), c15fs(d)}
	})
	safe("BestOrganism", func() interface{} {
		o1, t1, f1 := e.BestOrganism(false)
		o2, t2, f2 := e.BestOrganism(true)
		return []interface{}{orgView(o1), t1, f1, orgView(o2), t2, f2}
	})
	safe("EfficiencyScore", func() interface{} { return c15fs(e.EfficiencyScore()) })
	for ti := range e.Trials {
		t := &e.Trials[ti]
		p := fmt.Sprintf("trial%d.", ti)
		safe(p+"ChampionsFitness", func() interface{} { return fl(t.ChampionsFitness()) })
		safe(p+"ChampionsComplexities", func() interface{} { return fl(t.ChampionsComplexities()) })
		safe(p+"Diversity", func() interface{} { return fl(t.Diversity()) })
		safe(p+"Average", func() interface{} { a, b, c := t.Average(); return [][]string{fl(a), fl(b), fl(c)} })
		safe(p+"WinnerStatistics", func() interface{} { a, b, c, d := t.WinnerStatistics(); return []int{a, b, c, d} })
		safe(p+"Solved", func() interface{} { return t.Solved() })
		safe(p+"AvgEpochDuration", func() interface{} { return int64(t.AvgEpochDuration()) })
		safe(p+"RecentEpochEvalTime", func() interface{} { return t.RecentEpochEvalTime().UnixNano() })
	}
	return view
}

func (o *c15Oracle) experiment(spec c15ExpSpec) {
	in := map[string]interface{}{"kind": "experiment", "experiment": spec}
	nilChampion := false
	for _, t := range spec.Trials {
		for _, g := range t.Gens {
			if g.Champion == nil {
				nilChampion = true
			}
		}
	}
	e := c15MakeExp(spec)
	var buf bytes.Buffer
	if err, _ := c15Guard(func() error { return e.Write(&buf) }); err != nil {
		o.fail("experiment-write-error", "Experiment.Write failed", in, err.Error(), "nil error")
		return
	}
	back := &experiment.Experiment{}
	err, _ := c15Guard(func() error { return back.Read(bytes.NewReader(buf.Bytes())) })
	if nilChampion {
		// recorded finding: Generation.Encode writes nothing for a nil champion, Decode always reads one
		if err != nil {
			o.fail("gob-generation-nil-champion", "an experiment holding a generation without champion is written but cannot be read back", in, err.Error(), "nil error and the same experiment")
		} else if a, b := c15JSON(c15ExpView(e)), c15JSON(c15ExpView(back)); a != b {
			o.fail("gob-generation-nil-champion restored-differs", "an experiment holding a generation without champion reads back different", in, b, a)
		}
		return
	}
	if err != nil {
		o.fail("experiment-read-error", "Experiment.Read rejects what Experiment.Write wrote", in, err.Error(), "nil error")
		return
	}
	a, b := c15ExpView(e), c15ExpView(back)
	if c15JSON(a) != c15JSON(b) {
		first := "?"
		keys := make([]string, 0, len(a))
		for k := range a {
			keys = append(keys, k)
		}
		sort.Strings(keys)
		for _, k := range keys {
			if c15JSON(a[k]) != c15JSON(b[k]) {
				first = k
				break
			}
		}
		o.fail("experiment-roundtrip "+first, "a saved experiment does not restore the same trials, generations, champions or derived statistics", in,
			map[string]interface{}{first: b[first]}, map[string]interface{}{first: a[first]})
		return
	}
	// reading into an Experiment value that was used before (other trials, whose statistics were already asked
	// for) must restore the same experiment: nothing of the previous contents may show through
	var decoy c15ExpSpec
	if json.Unmarshal([]byte(c15JSON(spec)), &decoy) != nil {
		return
	}
	decoy.Id, decoy.Name = spec.Id+1, spec.Name+" (previous contents)"
	decoy.Trials = append(decoy.Trials, decoy.Trials...)
	for ti := range decoy.Trials {
		for gi := range decoy.Trials[ti].Gens {
			g := &decoy.Trials[ti].Gens[gi]
			g.Solved, g.WinnerNodes, g.WinnerGenes, g.WinnerEvals, g.Diversity = true, g.WinnerNodes+1000, g.WinnerGenes+2000, g.WinnerEvals+3000, g.Diversity+7
		}
	}
	used := c15MakeExp(decoy)
	_ = c15ExpView(used) // asks every statistic once: whatever the accessors cache is now in place
	if err, _ := c15Guard(func() error { return used.Read(bytes.NewReader(buf.Bytes())) }); err != nil {
		o.fail("experiment-read-into-used-value error", "Experiment.Read into a previously used Experiment value failed", in, err.Error(), "nil error")
		return
	}
	if c := c15ExpView(used); c15JSON(a) != c15JSON(c) {
		first := "?"
		keys := make([]string, 0, len(a))
		for k := range a {
			keys = append(keys, k)
		}
		sort.Strings(keys)
		for _, k := range keys {
			if c15JSON(a[k]) != c15JSON(c[k]) {
				first = k
				break
			}
		}
		o.fail("experiment-read-into-used-value "+first, "a saved experiment read into a previously used Experiment value shows data of the previous contents", in,
			map[string]interface{}{first: c[first]}, map[string]interface{}{first: a[first]})
	}
}

func c15JSON(v interface{}) string {
	b, err := json.Marshal(v)
	if err != nil {
		return "unmarshalable: " + err.Error()
	}
	return string(b)
}

func c15RandExp(rng *rand.Rand, pool []c15Genome, allowNilChampion bool) c15ExpSpec {
	s := c15ExpSpec{Id: rng.Intn(100), Name: []string{"", "XOR", "pole balancing #2", "ünïcode \"q\""}[rng.Intn(4)]}
	nt := rng.Intn(4)
	fls := func(n int) []string {
		out := make([]string, n)
		for i := range out {
			out[i] = c15fs(c15RandFloat(rng, false))
		}
		return out
	}
	for t := 0; t < nt; t++ {
		tr := c15TrialSpec{Id: t}
		ng := rng.Intn(5)
		for g := 0; g < ng; g++ {
			nsp := rng.Intn(4)
			gs := c15GenSpec{Id: g, ExecutedNs: 1600000000000000000 + int64(rng.Intn(1000000))*1000003, DurationNs: int64(rng.Intn(1 << 30)),
				Solved: rng.Intn(4) == 0, Fitness: fls(nsp), Age: fls(nsp), Complexity: fls(nsp), Diversity: nsp,
				WinnerEvals: rng.Intn(1000), WinnerNodes: rng.Intn(30), WinnerGenes: rng.Intn(60), TrialId: t}
			if !(allowNilChampion && rng.Intn(3) == 0) {
				gs.Champion = &c15Champ{Fitness: c15fs(c15RandFloat(rng, false)), Offspring: c15fs(c15RandFloat(rng, false)), Error: c15fs(c15RandFloat(rng, false)),
					IsWinner: rng.Intn(2) == 0, Generation: rng.Intn(50), Genome: pool[rng.Intn(len(pool))]}
			}
			tr.Gens = append(tr.Gens, gs)
		}
		s.Trials = append(s.Trials, tr)
	}
	return s
}

// ---------- modular genomes (YAML only) ----------

func c15Modular(rng *rand.Rand) []*genetics.Genome {
	var out []*genetics.Genome
	path := filepath.Join(repoRoot(), "data", "test_seed_genome.yml")
	if f, err := os.Open(path); err == nil {
		if rd, err := genetics.NewGenomeReader(f, genetics.YAMLGenomeEncoding); err == nil {
			if g, err := rd.Read(); err == nil {
				out = append(out, g)
			}
		}
		_ = f.Close()
	}
	// hand-built: two modules over hidden nodes, one node both input and output of a module
	ip := func(i int) *int { return &i }
	ps := func(x float64) []string {
		out := make([]string, 8)
		for i := range out {
			out[i] = c15fs(0)
		}
		out[0] = c15fs(x)
		return out
	}
	one := c15fs(1)
	j := c15Genome{Id: 5,
		Traits: []c15T{{1, ps(0.1)}, {2, ps(0.2)}},
		Nodes:  []c15N{{1, 3, 17, nil}, {2, 1, 17, ip(1)}, {3, 1, 17, nil}, {4, 0, 14, nil}, {5, 0, 14, ip(2)}, {6, 0, 17, nil}, {7, 2, 3, nil}},
		Genes: []c15G{{1, 4, false, c15fs(0.5), ip(1), 1, c15fs(0.5), true}, {2, 4, false, c15fs(-1.25), nil, 2, c15fs(0), true},
			{3, 5, false, c15fs(1e-3), ip(2), 3, c15fs(2), false}, {6, 7, false, c15fs(3), nil, 4, c15fs(0), true}},
		Mods: []c15M{{Node: c15N{8, 0, 21, nil}, Innov: 5, Mut: c15fs(0.5), En: true, Ins: []c15L{{4, one}, {5, one}}, Outs: []c15L{{6, one}}},
			{Node: c15N{9, 0, 22, ip(1)}, Innov: 6, Mut: c15fs(1.5), En: false, Ins: []c15L{{4, one}, {6, one}}, Outs: []c15L{{6, one}, {5, one}}}}}
	out = append(out, c15Build(j))
	// the same genome with node ids starting at 0: a module reads node 0
	{
		jz := c15Capture(c15Build(j))
		jz.Id = 6
		for i := range jz.Nodes {
			jz.Nodes[i].Id--
		}
		for i := range jz.Genes {
			jz.Genes[i].In--
			jz.Genes[i].Out--
		}
		for i := range jz.Mods {
			jz.Mods[i].Node.Id--
			for k := range jz.Mods[i].Ins {
				jz.Mods[i].Ins[k].Id--
			}
			for k := range jz.Mods[i].Outs {
				jz.Mods[i].Outs[k].Id--
			}
		}
		jz.Mods[0].Ins[0].Id = 0
		out = append(out, c15Build(jz))
	}
	// variations of scalar content
	n := len(out)
	for k := 0; k < 6; k++ {
		jj := c15Capture(out[k%n])
		for i := range jj.Genes {
			jj.Genes[i].W = c15fs(c15RandFloat(rng, false))
			jj.Genes[i].Mut = c15fs(c15RandFloat(rng, false))
			jj.Genes[i].En = rng.Intn(3) != 0
		}
		for i := range jj.Mods {
			jj.Mods[i].Mut = c15fs(c15RandFloat(rng, false))
			jj.Mods[i].En = rng.Intn(2) == 0
			jj.Mods[i].Node.Act = []int{21, 22, 23}[rng.Intn(3)]
		}
		out = append(out, c15Build(jj))
	}
	return out
}

// ---------- runner ----------

func runC15(r *Run) error {
	quiet()
	r.Res.Rule = "genomes evolved on the real code by operator histories (weights from mutation, disabled / recurrent genes, nil traits), the same with boundary scalars " +
		"(denormals, 1e22, -0, extremes, every registered activation name), modular genomes (YAML), ill-formed genomes (what the format normalises or rejects) and " +
		"malformed texts (cut / retagged / reordered lines, unknown ids, stray lines); each artefact is one writer or reader run compared with the model, plus end-to-end " +
		"round trips of all six formats under the Go-side oracle; non-trivial = genome with a disabled or recurrent gene, a nil trait or a non-integral weight, or a malformed text; distinct by text"
	c15RegTerm = c15Registry(r)
	var names []int
	for c := 0; c < 128; c++ {
		if _, err := neatmath.NodeActivators.ActivationNameFromType(neatmath.NodeActivationType(c)); err == nil {
			names = append(names, c)
		}
	}
	rng := r.Rng
	o := &c15Oracle{r: r}
	c := &c15Gen{r: r}
	c.cf = r.NewCaseFile(0, c15Imports, "c15_case")
	defer func() { c.cf.Close("c15_mismatches") }()

	evolved := c15Evolved(r, r.N(14, 160), 18)
	var pool []*genetics.Genome // well-formed genomes (oracle + correspondence)
	for _, g := range startGenomes() {
		pool = append(pool, g)
	}
	pool = append(pool, evolved...)
	for i := 0; i < r.N(30, 400); i++ {
		pool = append(pool, c15Edgy(rng, evolved[rng.Intn(len(evolved))], false, names))
	}
	nontrivial := func(g *genetics.Genome) bool {
		for _, x := range g.Genes {
			if !x.IsEnabled || x.Link.IsRecurrent || x.Link.Trait == nil || x.Link.ConnectionWeight != math.Trunc(x.Link.ConnectionWeight) {
				return true
			}
		}
		return false
	}
	size := func(g *genetics.Genome) string { return bucket(len(g.Genes)) }

	// 1. well-formed genomes: writer case, reader cases, oracles of all genome formats
	var texts, yamlTexts []string
	for i, g := range pool {
		text, err := c.caseWrite(g)
		r.Count("w|"+text, nontrivial(g))
		r.Hist("genes", size(g))
		if err == nil {
			texts = append(texts, text)
			c.caseRead(text, nil)
			other := g.Id + 1000
			if i%3 == 0 {
				c.caseRead(text, &other)
			}
		}
		o.strconvRoundTrip(c15Floats(c15Capture(g)))
		o.plain(g)
		o.yaml(g)
		if i%2 == 1 {
			if ytext, err := c.caseYamlWrite(g); err == nil {
				yamlTexts = append(yamlTexts, ytext)
				c.caseYamlRead(ytext)
			}
		}
		if i%2 == 0 {
			o.fmns(c15Capture(g), rng.Int63())
		}
		if i < 3 {
			r.Sample(map[string]interface{}{"genome": c15Capture(g), "plain_text": text})
		}
	}
	// non-finite scalars: plain and organism formats carry them, YAML too; FMNS must refuse rather than corrupt
	for i := 0; i < r.N(12, 120); i++ {
		g := c15Edgy(rng, evolved[rng.Intn(len(evolved))], true, names)
		text, err := c.caseWrite(g)
		r.Count("w|"+text, true)
		if err == nil {
			c.caseRead(text, nil)
		}
		o.plain(g)
		o.yaml(g)
		o.fmns(c15Capture(g), rng.Int63())
		if ytext, err := c.caseYamlWrite(g); err == nil {
			c.caseYamlRead(ytext)
		}
	}
	// one YAML writer for a sequence of genomes: modular and plain ones interleaved, in both orders
	{
		mods := c15Modular(rng)
		for k := 0; k < r.N(4, 40) && len(mods) > 0 && len(evolved) > 0; k++ {
			seq := []*genetics.Genome{evolved[rng.Intn(len(evolved))], mods[rng.Intn(len(mods))], evolved[rng.Intn(len(evolved))], mods[rng.Intn(len(mods))], evolved[rng.Intn(len(evolved))]}
			if k%2 == 1 {
				seq = seq[1:]
			}
			o.yamlSequence(seq)
		}
	}
	// modular genomes: YAML keeps the modules, the plain format drops them
	for _, g := range c15Modular(rng) {
		o.yaml(g)
		o.plain(g)
		o.fmns(c15Capture(g), rng.Int63())
		text, err := c.caseWrite(g)
		r.Count("w|"+text, true)
		if err == nil {
			c.caseRead(text, nil)
		}
		r.Hist("modular", fmt.Sprint(len(g.ControlGenes), " modules"))
		if ytext, err := c.caseYamlWrite(g); err == nil {
			yamlTexts = append(yamlTexts, ytext)
			c.caseYamlRead(ytext)
		}
	}
	// 2. ill-formed genomes: correspondence only (the model says what the format does to them)
	for i := 0; i < r.N(60, 700); i++ {
		g, kind := c15Odd(rng, pool[rng.Intn(len(pool))])
		text, err := c.caseWrite(g)
		r.Hist("odd_genomes", kind)
		r.Count("w|"+kind+text, true)
		if err == nil {
			c.caseRead(text, nil)
		}
		if i%2 == 0 {
			if ytext, err := c.caseYamlWrite(g); err == nil {
				c.caseYamlRead(ytext)
			}
		}
	}
	// malformed YAML texts through the YAML reader
	for i := 0; i < r.N(60, 800); i++ {
		text, kind := c15MalformYAML(rng, yamlTexts[rng.Intn(len(yamlTexts))])
		r.Hist("malformed_yaml", kind)
		c.caseYamlRead(text)
		r.Count("yr|"+text, true)
	}
	// 3. malformed texts through the reader
	for i := 0; i < r.N(150, 2500); i++ {
		text := texts[rng.Intn(len(texts))]
		kind := ""
		for k := 0; k <= rng.Intn(2); k++ {
			var k1 string
			text, k1 = c15Malform(rng, text)
			kind += k1 + " "
		}
		r.Hist("malformed_text", strings.TrimSpace(kind))
		var id *int
		if rng.Intn(4) == 0 {
			v := rng.Intn(50)
			id = &v
		}
		c.caseRead(text, id)
		r.Count("r|"+text, true)
	}
	// 4. organisms
	orgSpec := func(g *genetics.Genome, nonFinite bool) c15Org {
		return c15Org{Fit: c15fs(c15RandFloat(rng, nonFinite)), High: c15fs(c15RandFloat(rng, nonFinite)), Gen: rng.Intn(200) - 3, Child: rng.Intn(2) == 0, Genome: c15Capture(g)}
	}
	var orgTexts []string
	for i := 0; i < r.N(50, 600); i++ {
		spec := orgSpec(pool[rng.Intn(len(pool))], i%5 == 0)
		data, err := c.caseOrgWrite(spec)
		r.Count("ow|"+string(data), true)
		if err == nil {
			orgTexts = append(orgTexts, string(data))
			c.caseOrgRead(string(data))
		}
		o.strconvRoundTrip([]float64{c15pf(spec.Fit), c15pf(spec.High)})
		o.organism(spec)
	}
	for i := 0; i < r.N(40, 500); i++ {
		text := orgTexts[rng.Intn(len(orgTexts))]
		lines := strings.SplitN(text, "\n", 2)
		f := strings.Split(lines[0], " ")
		switch rng.Intn(8) {
		case 0:
			lines[0] = strings.Join(f[:rng.Intn(len(f))], " ")
		case 1:
			lines[0] += " 1"
		case 2:
			if k := rng.Intn(len(f)); k != 3 {
				f[k] = "x"
			}
			lines[0] = strings.Join(f, " ")
		case 3:
			f[0], f[2] = "7", "-3"
			lines[0] = strings.Join(f, " ")
		case 4:
			if f[3] == "true" {
				f[3] = "false"
			} else {
				f[3] = "true"
			}
			lines[0] = strings.Join(f, " ")
		case 5:
			lines = []string{lines[0]}
		case 6:
			lines = []string{""}
		default:
			lines[1], _ = c15Malform(rng, lines[1])
		}
		text = strings.Join(lines, "\n")
		c.caseOrgRead(text)
		r.Count("or|"+text, true)
	}
	// 5. populations
	var popTexts []string
	for i := 0; i < r.N(30, 300); i++ {
		n := rng.Intn(6)
		gs := make([]*genetics.Genome, n)
		js := make([]c15Genome, n)
		for k := range gs {
			gs[k] = pool[rng.Intn(len(pool))]
			js[k] = c15Capture(gs[k])
		}
		text, err := c.casePopWrite(gs)
		r.Count("pw|"+text, n > 1)
		r.Hist("population_size", fmt.Sprint(n))
		if err == nil {
			popTexts = append(popTexts, text)
			c.casePopRead(text)
		}
		o.population(js, i%3, rng.Int63())
	}
	for i := 0; i < r.N(60, 800); i++ {
		text := popTexts[rng.Intn(len(popTexts))]
		kind := "comments"
		switch rng.Intn(8) {
		case 0, 1: // comment headers as Species.Write emits them
			lines := strings.Split(strings.TrimSuffix(text, "\n"), "\n")
			var out []string
			for _, l := range lines {
				if strings.HasPrefix(l, "genomestart ") {
					out = append(out, "/* Organism #"+strings.TrimPrefix(l, "genomestart ")+" Fitness: 1.250 Error: 0.000 */")
					if rng.Intn(3) == 0 {
						out = append(out, "/* ## $ WINNER ORGANISM FOR SPECIES #1 $ ## */")
					}
				}
				out = append(out, l)
				if rng.Intn(25) == 0 {
					out = append(out, "/* inside */")
				}
			}
			text = "/* Species #1 : (Size 3) (AF 1.250) (Age 2)  */\n" + strings.Join(out, "\n") + "\n"
		case 2: // stray line outside any genome
			text = []string{"foo bar\n", "trait 1 0 0 0 0 0 0 0 0\n", "genomeend 3\n", "note \n"}[rng.Intn(4)] + text
			kind = "stray-line-first"
		case 3:
			text = text + []string{"foo bar\n", "genomeend 3\n", "/* end */\n", "\n", "x\n"}[rng.Intn(5)]
			kind = "trailing-line"
		default:
			text, kind = c15Malform(rng, text)
			if rng.Intn(3) == 0 {
				text = strings.Replace(text, "genomestart ", "genomestart 1 ", 1)
				kind += " genomestart-two-ids"
			}
		}
		r.Hist("population_text", kind)
		c.casePopRead(text)
		r.Count("pr|"+text, true)
	}
	// 6. experiments
	jpool := make([]c15Genome, 0, len(pool))
	for _, g := range pool {
		jpool = append(jpool, c15Capture(g))
	}
	for i := 0; i < r.N(60, 600); i++ {
		spec := c15RandExp(rng, jpool, false)
		o.experiment(spec)
		if i%2 == 0 {
			c.caseExp(spec)
		}
		r.Hist("experiment_trials", fmt.Sprint(len(spec.Trials)))
		r.Count("x|"+c15JSON(spec), len(spec.Trials) > 0)
	}
	for i := 0; i < r.N(6, 40); i++ {
		spec := c15RandExp(rng, jpool, true)
		o.experiment(spec)
		c.caseExp(spec)
	}
	r.Note("ReadPopulation panics (nil *bytes.Buffer) on any non-comment line outside genomestart..genomeend; the model returns GoPanic there and the correspondence covers it; it is not on a round-trip path")
	r.Note("not carried by the formats (so not compared): plain drops modules; YAML drops module link weights (reads 1.0) and the sign of -0; gob experiment drops Trial.Duration, " +
		"Trial.WinnerGeneration, Experiment.RandSeed, Experiment.MaxFitnessScore and the champion's Species")
	c15FmnsCases(r)
	return nil
}

func replayC15(r *Run, input []byte) error {
	quiet()
	var head struct {
		Kind       string      `json:"kind"`
		Genome     *c15Genome  `json:"genome"`
		Genomes    []c15Genome `json:"genomes"`
		Organism   *c15Org     `json:"organism"`
		Experiment *c15ExpSpec `json:"experiment"`
		Mode       int         `json:"mode"`
		Seed       int64       `json:"seed"`
		Value      string      `json:"value"`
	}
	if err := json.Unmarshal(input, &head); err != nil {
		return err
	}
	o := &c15Oracle{r: r}
	switch head.Kind {
	case "plain", "plain-write":
		o.plain(c15Build(*head.Genome))
	case "yaml":
		o.yaml(c15Build(*head.Genome))
	case "organism", "organism-write":
		o.organism(*head.Organism)
	case "population", "population-write":
		o.population(head.Genomes, head.Mode, head.Seed)
	case "fmns":
		o.fmns(*head.Genome, head.Seed)
	case "experiment":
		o.experiment(*head.Experiment)
	case "float":
		o.strconvRoundTrip([]float64{c15pf(head.Value)})
	case "registry":
		c15Registry(r)
	case "yaml-sequence":
		gs := make([]*genetics.Genome, len(head.Genomes))
		for i := range head.Genomes {
			gs[i] = c15Build(head.Genomes[i])
		}
		o.yamlSequence(gs)
	case "fmns-net", "fmns-solver", "fmns-doc":
		return c15FmnsReplay(r, input)
	default:
		return fmt.Errorf("replay of kind %q is a correspondence input (text through a reader): re-run the check", head.Kind)
	}
	return nil
}
